/-! # `ofp_match` — executable model of `pox/openflow/libopenflow_01.py` class `ofp_match`   (core Lean only)

Mirrors `/repo` HEAD (repairs D22 and D29 committed; line numbers as of the first build, they move with every fix commit — the
harness anchors the functions by name).  The proposed repairs D26 / D37 / D38 are modelled in `Model/MatchV.lean`:

* the wildcard word `OFPFW_*` (`:512-537`): ten single-bit flags and the two 6-bit IP prefix counters;
* `__getattr__` / `get_nw_src` / `get_nw_dst` (`:1055-1067,1145-1155`)      → `view`, `nwView`;
* `__setattr__` / `set_nw_src` on a fresh `ofp_match()` (`:1039-1053,1069-1143`)  → `fromHeaders`;
* `from_packet(..., spec_frags=True)` (`:947-1013`)                         → `extract`, `fromPacket`;
* `_normalize_wildcards`, `_unwire_wildcards`, `unpack(flow_mod=True)` (`:1232-1244,1314-1341,1352-1372`) → `normalize`, `unwire`, `ofWire`;
* `_wire_wildcards` (`:1246-1283`), `pack(flow_mod=True)` (`:1186-1232`)         → `wireWildcards`, `packFlowMod`;
* `is_wildcarded` / `is_exact` (`:1344-1350`), `__eq__` (`:1460-1475`)       → `isWildcarded`, `eqMatch`;
* `matches_with_wildcards(other, consider_other_wildcards)` (`:1402-1458`) with `IPAddr.inNetwork` (`addresses.py:357-375`)
  → `matchesWith`.

A match is the wildcard word plus the twelve raw field values (`_in_port`, `_dl_src`, … as unsigned integers: Ethernet addresses
as 48-bit numbers, IP addresses as `IPAddr.toUnsigned()`).  The packet side is an abstract record `PHdr` of what the packet
library parsed (the parser itself is the subject of C14/C15).  Python's `x & ~m` on unbounded ints is `clearBits x m`. -/
namespace Pox.OF

/-! ## the wildcard word -/

/-- the ten single-bit wildcard flags, in the order of the `match_fail` lines of `matches_with_wildcards` -/
inductive Fld where
  | inPort | dlVlan | dlSrc | dlDst | dlType | nwProto | tpSrc | tpDst | dlVlanPcp | nwTos
  deriving DecidableEq, Repr

/-- bit position of the flag in `ofp_flow_wildcards` -/
def Fld.bit : Fld → Nat
  | .inPort => 0 | .dlVlan => 1 | .dlSrc => 2 | .dlDst => 3 | .dlType => 4 | .nwProto => 5
  | .tpSrc => 6 | .tpDst => 7 | .dlVlanPcp => 20 | .nwTos => 21

def Fld.all : List Fld :=
  [.inPort, .dlVlan, .dlSrc, .dlDst, .dlType, .nwProto, .tpSrc, .tpDst, .dlVlanPcp, .nwTos]

def Fld.mask (f : Fld) : Nat := 2 ^ f.bit

def NW_SRC_SHIFT : Nat := 8
def NW_DST_SHIFT : Nat := 14
def NW_SRC_MASK : Nat := 0x3f00      -- 16128
def NW_DST_MASK : Nat := 0xfc000     -- 1032192
def NW_SRC_ALL : Nat := 0x2000       -- 8192   = 32 <<< 8
def NW_DST_ALL : Nat := 0x80000      -- 524288 = 32 <<< 14
def FW_ALL : Nat := 0x3fffff         -- (1 <<< 22) - 1
def VLAN_NONE : Nat := 0xffff
def DL_TYPE_NOT_ETH : Nat := 0x05ff
def EXACT_PRIORITY : Nat := 65537    -- (1<<16)+1

/-- Python `x & ~m` (unbounded integers) -/
def clearBits (x m : Nat) : Nat := x ^^^ (x &&& m)

/-- `(wildcards & OFPFW_NW_SRC_MASK) >> OFPFW_NW_SRC_SHIFT` -/
def srcCnt (w : Nat) : Nat := (w &&& NW_SRC_MASK) >>> NW_SRC_SHIFT
def dstCnt (w : Nat) : Nat := (w &&& NW_DST_MASK) >>> NW_DST_SHIFT

/-- `_normalize_wildcards`: prefix counters above 32 become 32 -/
def normalize (w : Nat) : Nat :=
  let w := if srcCnt w > 32 then clearBits w NW_SRC_MASK ||| (32 <<< NW_SRC_SHIFT) else w
  if dstCnt w > 32 then clearBits w NW_DST_MASK ||| (32 <<< NW_DST_SHIFT) else w

/-- bits `_unwire_wildcards` / `_wire_wildcards` add / remove -/
def TP_BITS : Nat := Fld.tpSrc.mask ||| Fld.tpDst.mask
def ARP_IGNORED : Nat := Fld.nwTos.mask ||| TP_BITS
def NONIP_IGNORED : Nat := Fld.nwTos.mask ||| Fld.nwProto.mask ||| NW_SRC_MASK ||| NW_DST_MASK ||| TP_BITS

def isL4Proto (p : Nat) : Bool := p == 1 || p == 6 || p == 17

/-- `_unwire_wildcards`: reads the *raw* `_dl_type` / `_nw_proto`, whether or not they are wildcarded -/
def unwire (dlType nwProto w : Nat) : Nat :=
  if dlType = 0x0800 then
    if isL4Proto nwProto then w else w ||| TP_BITS
  else if dlType = 0x0806 then w ||| ARP_IGNORED
  else w ||| NONIP_IGNORED

/-! ## the match object -/

structure OfMatch where
  wildcards : Nat
  inPort : Nat
  dlSrc : Nat
  dlDst : Nat
  dlVlan : Nat
  dlVlanPcp : Nat
  dlType : Nat
  nwTos : Nat
  nwProto : Nat
  nwSrc : Nat
  nwDst : Nat
  tpSrc : Nat
  tpDst : Nat
  deriving DecidableEq, Repr

namespace OfMatch

/-- raw `_field` value -/
def get (m : OfMatch) : Fld → Nat
  | .inPort => m.inPort | .dlVlan => m.dlVlan | .dlSrc => m.dlSrc | .dlDst => m.dlDst | .dlType => m.dlType
  | .nwProto => m.nwProto | .tpSrc => m.tpSrc | .tpDst => m.tpDst | .dlVlanPcp => m.dlVlanPcp | .nwTos => m.nwTos

/-- `(self.wildcards & flag) == flag` -/
def wild (m : OfMatch) (f : Fld) : Bool := m.wildcards.testBit f.bit

/-- `__getattr__`: `None` when wildcarded -/
def view (m : OfMatch) (f : Fld) : Option Nat := if m.wild f then none else some (m.get f)

/-- `get_nw_src()` / `get_nw_dst()` for counter value `cnt`: `(None, 0)` when bit 5 of the counter is set, else
    `(addr, 32 - cnt)`.  (`cnt < 64`, so "bit 5 set" is `32 ≤ cnt`.) -/
def nwView (cnt addr : Nat) : Option (Nat × Nat) := if 32 ≤ cnt then none else some (addr, 32 - cnt)

def srcView (m : OfMatch) : Option (Nat × Nat) := nwView (srcCnt m.wildcards) m.nwSrc
def dstView (m : OfMatch) : Option (Nat × Nat) := nwView (dstCnt m.wildcards) m.nwDst

/-- `is_wildcarded`: `self.wildcards & OFPFW_ALL != 0` -/
def isWildcarded (m : OfMatch) : Bool := m.wildcards &&& FW_ALL != 0
def isExact (m : OfMatch) : Bool := !m.isWildcarded

/-- `unpack(raw, flow_mod=True)` applied to the raw wire record `r` (wildcard word and field values as transmitted) -/
def ofWire (r : OfMatch) : OfMatch := { r with wildcards := normalize (unwire r.dlType r.nwProto r.wildcards) }

/-- `unpack(raw, flow_mod=False)` -/
def ofWirePlain (r : OfMatch) : OfMatch := { r with wildcards := normalize r.wildcards }

/-- `_wire_wildcards(self.wildcards)` (used by `pack(flow_mod=True)`): reads `self.dl_type` / `self.nw_proto` through
    `__getattr__`, i.e. `None` when wildcarded. -/
def wireWildcards (m : OfMatch) : Nat :=
  if m.view .dlType = some 0x0800 then
    (match m.view .nwProto with
     | some p => if isL4Proto p then m.wildcards else clearBits m.wildcards TP_BITS
     | none => clearBits m.wildcards TP_BITS)
  else if m.view .dlType = some 0x0806 then clearBits m.wildcards ARP_IGNORED
  else if m.view .dlType = some 0x86dd then clearBits m.wildcards (NW_SRC_MASK ||| NW_DST_MASK ||| TP_BITS)
  else clearBits m.wildcards NONIP_IGNORED

/-- `__eq__`: equal wildcard words and equal attribute views (`nw_src`/`nw_dst` compare the raw address when not
    completely wildcarded, whatever the prefix length) -/
def eqMatch (a b : OfMatch) : Bool :=
  a.wildcards == b.wildcards && Fld.all.all (fun f => a.view f == b.view f) &&
  (a.srcView.map (·.1)) == (b.srcView.map (·.1)) && (a.dstView.map (·.1)) == (b.dstView.map (·.1))

/-- `match_fail(self.f, other.f)`: my field is not wildcarded and differs from the other's view (`None` differs from
    every value) -/
def fieldFail (self other : OfMatch) (f : Fld) : Bool :=
  !self.wild f && (other.wild f || self.get f != other.get f)

/-- address with the low `k` bits cleared: `a & ~((1 << k) - 1)` -/
def clearLow (k a : Nat) : Nat := a / 2 ^ k * 2 ^ k

/-- the `nw_src` / `nw_dst` block (`:1444-1456`, repaired per D29: both sides are reduced to the network part).
    `true` = "return False". -/
def nwFail (self other : Option (Nat × Nat)) : Bool :=
  match self with
  | none => false
  | some (sa, sb) =>
    let ob := match other with | some (_, b) => b | none => 0
    if sb > ob then true
    else match other with
      | none => true                                   -- unreachable (sb ≥ 1 > 0 = ob); `IPAddr(None)` would raise
      | some (oa, _) => clearLow (32 - sb) oa != clearLow (32 - sb) sa

/-- the flag part of the wildcard word: `wildcards & ~(OFPFW_NW_SRC_MASK|OFPFW_NW_DST_MASK)` -/
def flagBits (w : Nat) : Nat := clearBits w (NW_SRC_MASK ||| NW_DST_MASK)

/-- `self.matches_with_wildcards(other, consider_other_wildcards)` -/
def matchesWith (considerOtherWildcards : Bool) (self other : OfMatch) : Bool :=
  if eqMatch self other then true
  else if considerOtherWildcards && (flagBits self.wildcards ||| flagBits other.wildcards) != flagBits self.wildcards then false
  else if Fld.all.any (fieldFail self other) then false
  else if nwFail self.srcView other.srcView then false
  else if nwFail self.dstView other.dstView then false
  else true

end OfMatch

/-! ## packet side -/

inductive L4 where
  | none                                  -- payload not a udp/tcp/icmp object
  | ports (src dst : Nat)                 -- `udp` or `tcp` instance
  | icmp (type code : Nat)                -- `icmp` instance
  deriving DecidableEq, Repr

inductive L3 where
  | other
  /-- `ipv4` instance; `frag` = `(flags & MF_FLAG) or frag != 0` -/
  | ipv4 (src dst proto tos : Nat) (frag : Bool) (l4 : L4)
  | arp (opcode psrc pdst : Nat)
  deriving DecidableEq, Repr

structure Vlan where
  id : Nat
  pcp : Nat
  ethType : Nat
  deriving DecidableEq, Repr

/-- `llc` instance: `snapOui = none` ↔ `not has_snap`; otherwise the 24-bit OUI -/
structure Llc where
  snapOui : Option Nat
  ethType : Nat
  deriving DecidableEq, Repr

/-- What the packet library parsed, as far as `from_packet` looks at it.  `vlan` / `l3` describe the chain that follows the
    Ethernet header or — when `llc` is present — the LLC/SNAP header. -/
structure PHdr where
  src : Nat
  dst : Nat
  typ : Nat                -- `ethernet.type` (type/length field)
  llc : Option Llc
  vlan : Option Vlan
  l3 : L3
  deriving DecidableEq, Repr

/-- what `from_packet` assigns: `none` = attribute never set (stays wildcarded in the packet's match) -/
structure OHeaders where
  inPort : Option Nat
  dlSrc : Option Nat
  dlDst : Option Nat
  dlVlan : Option Nat
  dlVlanPcp : Option Nat
  dlType : Option Nat
  nwTos : Option Nat
  nwProto : Option Nat
  nwSrc : Option Nat
  nwDst : Option Nat
  tpSrc : Option Nat
  tpDst : Option Nat
  deriving DecidableEq, Repr

def OHeaders.get (o : OHeaders) : Fld → Option Nat
  | .inPort => o.inPort | .dlVlan => o.dlVlan | .dlSrc => o.dlSrc | .dlDst => o.dlDst | .dlType => o.dlType
  | .nwProto => o.nwProto | .tpSrc => o.tpSrc | .tpDst => o.tpDst | .dlVlanPcp => o.dlVlanPcp | .nwTos => o.nwTos

/-- The field logic of `from_packet(packet, in_port, spec_frags)`.
    `arpGuard` = the ARP branch is guarded by `if p.opcode <= 255:` (as at `/repo` HEAD); without the guard (proposed repair
    `fixes/C03_D37_arp_opcode_low8.diff`) the branch assigns `nw_proto = p.opcode & 0xff` and the addresses unconditionally. -/
def extractG (arpGuard specFrags : Bool) (p : PHdr) (inPort : Option Nat) : OHeaders :=
  let t0 := if p.typ < 1536 then DL_TYPE_NOT_ETH else p.typ
  -- `if isinstance(p, llc): if p.has_snap and p.oui == b'\0\0\0': dl_type = p.eth_type; p = p.next`
  -- (an LLC header without a recognised SNAP header stays `p`: neither the vlan nor the L3 branch applies)
  let (t1, descend) : Nat × Bool := match p.llc with
    | some l => if l.snapOui = some 0 then (l.ethType, true) else (t0, false)
    | none => (t0, true)
  let vl := if descend then p.vlan else none
  let l3 := if descend then p.l3 else L3.other
  let (t2, vid, pcp) : Nat × Nat × Nat := match vl with
    | some v => (v.ethType, v.id, v.pcp)
    | none => (t1, VLAN_NONE, 0)
  let base : OHeaders := { inPort := inPort, dlSrc := some p.src, dlDst := some p.dst, dlVlan := some vid, dlVlanPcp := some pcp,
                           dlType := some t2, nwTos := none, nwProto := none, nwSrc := none, nwDst := none, tpSrc := none, tpDst := none }
  match l3 with
  | .ipv4 s d pr tos frag l4 =>
    let ip := { base with nwSrc := some s, nwDst := some d, nwProto := some pr, nwTos := some tos }
    -- `if spec_frags and ((p.flags & p.MF_FLAG) or p.frag != 0): tp_src = tp_dst = 0; return`
    if specFrags && frag then { ip with tpSrc := some 0, tpDst := some 0 }
    else match l4 with
      | .ports a b => { ip with tpSrc := some a, tpDst := some b }
      | .icmp t c => { ip with tpSrc := some t, tpDst := some c }
      | .none => ip
  | .arp op s d =>
    if arpGuard then (if op ≤ 255 then { base with nwProto := some op, nwSrc := some s, nwDst := some d } else base)
    else { base with nwProto := some (op % 256), nwSrc := some s, nwDst := some d }
  | .other => base

/-- `from_packet(packet, in_port, spec_frags=True)` as at `/repo` HEAD -/
def extract (p : PHdr) (inPort : Option Nat) : OHeaders := extractG true true p inPort

/-- `ofp_match()` : every field at its default, `wildcards = _normalize_wildcards(OFPFW_ALL)` -/
def empty : OfMatch :=
  { wildcards := normalize FW_ALL, inPort := 0, dlSrc := 0, dlDst := 0, dlVlan := 0, dlVlanPcp := 0, dlType := 0,
    nwTos := 0, nwProto := 0, nwSrc := 0, nwDst := 0, tpSrc := 0, tpDst := 0 }

/-- `setattr(m, f, v)` for the ten flag fields with `v` not `None`: store, clear the flag -/
def setFlagWild (w : Nat) (f : Fld) (v : Option Nat) : Nat := match v with
  | some _ => clearBits w f.mask
  | none => w

/-- `set_nw_src(ip)` with a plain address (prefix 32): `wildcards &= ~MASK; wildcards |= (32-32) << SHIFT` -/
def setNwWild (w mask shift : Nat) (v : Option Nat) : Nat := match v with
  | some _ => clearBits w mask ||| ((32 - 32) <<< shift)
  | none => w

/-- a fresh `ofp_match()` after the assignments recorded in `o` -/
def fromHeaders (o : OHeaders) : OfMatch :=
  let w := empty.wildcards
  let w := Fld.all.foldl (fun w f => setFlagWild w f (o.get f)) w
  let w := setNwWild w NW_SRC_MASK NW_SRC_SHIFT o.nwSrc
  let w := setNwWild w NW_DST_MASK NW_DST_SHIFT o.nwDst
  { wildcards := w, inPort := o.inPort.getD 0, dlSrc := o.dlSrc.getD 0, dlDst := o.dlDst.getD 0, dlVlan := o.dlVlan.getD 0,
    dlVlanPcp := o.dlVlanPcp.getD 0, dlType := o.dlType.getD 0, nwTos := o.nwTos.getD 0, nwProto := o.nwProto.getD 0,
    nwSrc := o.nwSrc.getD 0, nwDst := o.nwDst.getD 0, tpSrc := o.tpSrc.getD 0, tpDst := o.tpDst.getD 0 }

/-- `ofp_match.from_packet(packet, in_port, spec_frags=True)` -/
def fromPacket (p : PHdr) (inPort : Nat) : OfMatch := fromHeaders (extract p (some inPort))

/-- `ofp_match.from_packet(packet, in_port, spec_frags)` in general (`in_port` may be `None`; controllers call it with
    `spec_frags=False`, the default) -/
def fromPacketG (arpGuard specFrags : Bool) (p : PHdr) (inPort : Option Nat) : OfMatch :=
  fromHeaders (extractG arpGuard specFrags p inPort)

/-- The 40-byte record `pack(flow_mod=True)` writes (`:1186-1232`, `adjust_wildcards` at its class default `True`):
    wildcard word `_wire_wildcards(self.wildcards)`; every field is `self.f or 0` (attribute view: `None` when wildcarded), the
    IP fields only for dl_type 0x0800 / 0x0806 (`check_ip`, `check_ip_or_arp`), the transport fields only for dl_type 0x0800 with
    nw_proto 1, 6 or 17 (`check_tp`).  Value ranges of `struct.pack` are C01's subject. -/
def packFlowMod (m : OfMatch) : OfMatch :=
  let v := fun f => (m.view f).getD 0                    -- `self.f or 0`
  let isIp := m.view .dlType == some 0x0800
  let isArp := m.view .dlType == some 0x0806
  let l4 := match m.view .nwProto with
    | some p => isL4Proto p
    | none => false
  { wildcards := m.wireWildcards, inPort := v .inPort, dlSrc := v .dlSrc, dlDst := v .dlDst, dlVlan := v .dlVlan,
    dlVlanPcp := v .dlVlanPcp, dlType := v .dlType,
    nwTos := if isIp then v .nwTos else 0,
    nwProto := if isIp || isArp then v .nwProto else 0,
    nwSrc := if isIp || isArp then (m.srcView.map (·.1)).getD 0 else 0,
    nwDst := if isIp || isArp then (m.dstView.map (·.1)).getD 0 else 0,
    tpSrc := if isIp && l4 then v .tpSrc else 0,
    tpDst := if isIp && l4 then v .tpDst else 0 }

end Pox.OF
