import PoxModel.Base.Bytes
/-!
# IPv6 extension headers (C14): `pox/lib/packet/ipv6.py` 75-268 (the header classes) and the extension-header part of
`ipv6.hdr` (:402-433, as repaired by D48: the headers are serialised behind the fixed header and count as payload) and of
`ipv6.parse` (:359-377, the `while nht != NO_NEXT_HEADER` loop).  Core only, structural recursion only.

The four registered classes: Hop-by-Hop (0), Routing (43), Destination Options (60) are `NormalExtensionHeader`s
(`next header`, `length` in 8-octet units not counting the first 8 octets, body), Fragment (44) is a
`FixedExtensionHeader` of 8 octets (`next header`, 7 body octets).  All four keep their body as raw bytes.

Python's partial operations stay partial: `struct.pack('!B', v)` of a value above 255 and the
`assert len(o) == self.LENGTH` of the fixed header are `none`; slices are Python slices (`List.take`/`List.drop`, short
at the end of the buffer, never an error); `raise TruncatedException` is the `truncated` result.
-/
namespace Pox.IPv6Ext

/-- one extension header object: `ty` = the class (`TYPE`), `nh` = `next_header_type`, `plen` = `payload_length` (only the
    normal classes have it; it is NOT derived from the body by the code), `body` = `raw_body` -/
structure Ext where
  ty : Nat
  nh : Nat
  plen : Nat
  body : Bytes
  deriving Repr, DecidableEq

/-- `_extension_headers` (the registry filled by `@extension_header_def`) -/
def isExt (t : Nat) : Bool := t = 0 || t = 43 || t = 44 || t = 60

/-- `NormalExtensionHeader.__len__`: NOT a byte count — the value of the header's length octet -/
def lenField (plen : Nat) : Nat := (plen + 2 + 7) / 8 - 1

/-- what `len(o)` is for a header object (`FixedExtensionHeader.__len__` = `LENGTH` = 8 for Fragment) -/
def Ext.pyLen (e : Ext) : Nat := if e.ty = 44 then 8 else lenField e.plen

/-- `pack()` of one header -/
def Ext.pack (e : Ext) : Option Bytes :=
  if e.ty = 44 then
    -- struct.pack("!B", nh) + raw_body ; assert len(o) == LENGTH
    if e.nh < 256 ∧ e.body.length = 7 then some (UInt8.ofNat e.nh :: e.body) else none
  else
    -- struct.pack("!BB", nh, len(self)) + raw_body
    if e.nh < 256 ∧ lenField e.plen < 256 then some (UInt8.ofNat e.nh :: UInt8.ofNat (lenField e.plen) :: e.body) else none

/-- `b''.join(eh.pack() for eh in self.extension_headers)` -/
def packExts : List Ext → Option Bytes
  | [] => some []
  | e :: es => do
    let a ← e.pack
    let b ← packExts es
    pure (a ++ b)

/-- `raw[a:b]` -/
def slice (raw : Bytes) (a b : Nat) : Bytes := (raw.drop a).take (b - a)

/-- `c.unpack_new(raw, offset, max_length = length)` for the class registered for `ty`; `none` = TruncatedException.
    Result: the new offset and the object. -/
def unpackNew (ty : Nat) (raw : Bytes) (offset maxLen : Nat) : Option (Nat × Ext) :=
  if ty = 44 then
    if maxLen < 8 then none
    else if raw.length - offset < 8 then none
    else
      match raw[offset]? with
      | none => none
      | some nh => some (offset + 8, ⟨44, nh.toNat, 0, slice raw (offset + 1) (offset + 8)⟩)
  else
    -- `if max_length and max_length < 2` (0 is falsy: passes), then `len(raw) - offset < 2`
    if maxLen ≠ 0 ∧ maxLen < 2 then none
    else if raw.length - offset < 2 then none
    else
      match raw[offset]?, raw[offset + 1]? with
      | some nh, some l =>
        -- max_length -= 2 goes negative for max_length 0/1 and then `max_length < l` holds (l >= 6)
        let l := l.toNat * 8 + 6
        if maxLen < 2 ∨ maxLen - 2 < l then none
        else some (offset + 2 + l, ⟨ty, nh.toNat, l, slice raw (offset + 2) (offset + 2 + l)⟩)
      | _, _ => none

inductive Res
  /-- the loop ended: headers found, the type of what follows them, where it starts, and the loop's `length` variable -/
  | ok (exts : List Ext) (nht offset length : Nat)
  /-- `length < 8` with an extension header announced: `return` with `parsed` still False -/
  | incomplete (exts : List Ext)
  /-- TruncatedException: `return` with `parsed` still False -/
  | truncated (exts : List Ext)
  /-- model fuel ran out (never with `fuel ≥ raw.length`, see `parse_fuel`) -/
  | fuel
  deriving Repr, DecidableEq

/-- the `while nht != ipv6.NO_NEXT_HEADER` loop of `ipv6.parse`; `offset` counts from the start of `raw`, `length` is the
    (clamped) payload length still to be interpreted.  Note `length -= len(o)`: for the normal classes `len(o)` is the
    length OCTET's value, not the number of bytes consumed — the code's `length` over-estimates what is left, and the final
    payload slice `raw[offset:offset+length]` is cut by the end of `raw` instead. -/
def parseLoop : Nat → Bytes → List Ext → Nat → Nat → Nat → Res
  | 0, _, _, _, _, _ => .fuel
  | f + 1, raw, acc, nht, offset, length =>
    if nht = 59 then .ok acc.reverse nht offset length
    else if isExt nht then
      if length < 8 then .incomplete acc.reverse
      else
        match unpackNew nht raw offset length with
        | none => .truncated acc.reverse
        | some (offset', o) => parseLoop f raw (o :: acc) o.nh offset' (length - o.pyLen)
    else .ok acc.reverse nht offset length

/-- the loop as `ipv6.parse` enters it, on the bytes BEHIND the 40-byte fixed header: `nht` from the fixed header,
    `length = min(payload_length, len(rest))` -/
def parse (rest : Bytes) (nht payloadLength : Nat) : Res :=
  parseLoop (rest.length + 1) rest [] nht 0 (min payloadLength rest.length)

/-- the payload `ipv6.parse` hands to the next parser: `raw[offset:offset+length]`; `NO_NEXT_HEADER` (59) means that
    nothing follows (`self.next = None`, whatever bytes are there) -/
def payloadOf (rest : Bytes) : Res → Option Bytes
  | .ok _ nht offset length => if nht = 59 then none else some (slice rest offset (offset + length))
  | _ => none

/-- what `ipv6.hdr` appends to the fixed header and adds to `payload_length` -/
def hdrExts (exts : List Ext) (payloadLen : Nat) : Option (Bytes × Nat) := do
  let b ← packExts exts
  pure (b, payloadLen + b.length)

end Pox.IPv6Ext
