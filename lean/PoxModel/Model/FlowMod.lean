import PoxModel.Model.MatchV
import PoxModel.Model.BufPool
/-! # Flow-table state machine — executable model of the FLOW_MOD / timeout paths of the software switch   (core Lean only)

Mirrors (line numbers of `/repo` HEAD):

* `TableEntry.__init__` / `from_flow_mod` (`flow_table.py:36-65`)                      → `mkEntry`
* `TableEntry.is_matched_by` (`:85-100`)                                               → `isMatchedBy`
* `TableEntry.touch_packet` (`:102-112`)                                               → `touch`
* `is_idle_timed_out` / `is_hard_timed_out` (`:114-126`)                               → `idleOut`, `hardOut`
* `flow_stats` / `to_flow_removed` (`:153-183`), `ofp_match.pack()` (`libopenflow_01.py:1186-1230`) → `flowStat`, `removedMsg`, `packPlain`
* `FlowTable.matching_entries`, `flow_stats`, `aggregate_stats` (`:255-274`)            → `statsEntries`, `Op.flowStats`, `Op.aggStats`
* `_remove_specific_entries`, `remove_expired_entries`, `remove_matching_entries` (`:276-311`) → `sweep`, `flowModDelete`, `addBase`
* `check_for_overlapping_entry`, `_matches_overlap` (`:329-374`)  → `overlapScan`, `overlapsWith`
* `SoftwareSwitchBase._handle_FlowTableModification` (`switch.py:215-232`)              → `wantsRemoved`, `notify`
* `_rx_flow_mod` (`:292-310`), `_flow_mod_add/_modify/_modify_strict/_delete/_delete_strict` (`:747-842`) → `flowModStep`, `flowMod*`
* `rx_packet`, table part (`:515-526`)                                                 → `packetStep`
* `_stats_flow` / `_stats_aggregate` (`:978-990`; the request's match is decoded by `unpack(flow_mod=False)`, `libopenflow_01.py:2940`) → `statsEntries`

`_remove_specific_entries(flows)` deletes by object identity the entries it was given, which were selected by a predicate over the
table just before: the model filters by that predicate (same result, whatever duplicates the table holds).

Time is a `Nat` in milliseconds (`time.time()` under the harness's virtual clock only takes values `k/8` s, exact in binary64;
`idle_timeout` / `hard_timeout` are whole seconds).  An entry is `Entry EData` of `Model/FlowTable`: `priority`, `mtch` (the
match *object*: `unpack(flow_mod=True)` of the transmitted record) and the payload below.  `EData.wire` is a ghost copy of the
record as transmitted (the code keeps the twelve raw field values but overwrites the wildcard word); nothing in `step` reads it —
it is what `Spec/OF10Table` identifies the flow by.

`_rx_flow_mod`'s tail — `if ofp.buffer_id is not None: _process_actions_for_packet_from_buffer(ofp.actions, ofp.buffer_id, ofp)`
(`switch.py:308-310,721-744`) — and the buffering of a table miss (`_buffer_packet`, `:702-719`) are modelled on C18's slot pool
(`Model/BufPool.Pool`, `alloc`): `bufferUse`, `packetStep`.  What the actions then do to the released frame is C12's subject: the
model reports *which* stored frame is processed with *which* action list (`Out.release`).

**Code variants.**  Three small repairs are proposed for the open findings C04-1/2/3 (`/verif/fixes/C04-*.diff`).  Until they are
committed the model has to mirror both trees, so the three places they touch read a `Cfg` (constant in the state):
`strictMutual` — `is_matched_by(strict=True)` tests "each match encompasses the other" instead of `==`;
`maskUndefined` — `_rx_flow_mod` drops the undefined wildcard bits 22..31; `statsUnwire` — `_stats_flow/_stats_aggregate`
normalise the request's match like a flow-mod's.  The three repairs are committed in `/repo` (09c84e3, d2e474d, 0b8e7c4):
`Cfg.repaired` is `/repo` HEAD with C03's repair D26 as well, `Cfg.head` a tree that reverts all of them; the harness probes the real
code for which one it runs against.  `Cfg.mv` is C03's `Variant` of `ofp_match` (`Model/MatchV.lean`: D37 `from_packet` of ARP, D38
`_unwire_wildcards`, D26 `is_wildcarded`): every use of `unpack(flow_mod=True)`, `from_packet` and
`TableEntry.effective_priority` below is the variant's, so the sort key of the table is `cfg.mv.effectivePriority`.

Outside the model: what actions do to a frame (C12), ports that do not exist or are configured down, actions that send a
released packet to the controller again (C18's `useCtl`). -/
namespace Pox.FlowMod
open Pox.OF Pox.OF.OfMatch
open Pox.BufPool (Pool alloc)

/-- an `ofp_action_*` as far as the flow-table code looks at it: `isinstance(a, ofp_action_output) and a.port == out_port` -/
inductive Action where
  | output (port maxLen : Nat)
  | other (kind arg : Nat)
  deriving DecidableEq, Repr

inductive Cmd where
  | add | modify | modifyStrict | delete | deleteStrict
  /-- any other value of the `command` field -/
  | unknown (code : Nat)
  deriving DecidableEq, Repr

/-- which of the proposed repairs the code under the model has (see the header) -/
structure Cfg where
  strictMutual : Bool
  maskUndefined : Bool
  statsUnwire : Bool
  /-- the variant of `ofp_match` (C03: D37, D38, D26) -/
  mv : Variant
  /-- repair D36 (`fixes/C04_D36_tos_dscp.diff`): `from_packet` stores `p.tos & 0xfc`, `matches_with_wildcards` and
      `_matches_overlap` compare `nw_tos & 0xfc` -/
  tosDscp : Bool
  deriving DecidableEq, Repr

def Cfg.head : Cfg := { strictMutual := false, maskUndefined := false, statsUnwire := false, mv := Variant.head, tosDscp := false }
def Cfg.repaired : Cfg := { strictMutual := true, maskUndefined := true, statsUnwire := true, mv := Variant.repaired, tosDscp := true }

/-- `TableEntry.effective_priority` of the code variant: the key the table is sorted by -/
def Cfg.key (cfg : Cfg) {α : Type} (e : Entry α) : Nat := cfg.mv.effectivePriority e

def OFPP_NONE : Nat := 0xffff
def OFPP_CONTROLLER : Nat := 0xfffd
def OFPP_TABLE : Nat := 0xfff9
/-- bit numbers of `OFPFF_SEND_FLOW_REM = 1`, `OFPFF_CHECK_OVERLAP = 2`, `OFPFF_EMERG = 4` -/
def FF_SEND_FLOW_REM : Nat := 0
def FF_CHECK_OVERLAP : Nat := 1
def FF_EMERG : Nat := 2
def OFPET_FLOW_MOD_FAILED : Nat := 3
def OFPFMFC_ALL_TABLES_FULL : Nat := 0
def OFPFMFC_OVERLAP : Nat := 1
def OFPFMFC_EPERM : Nat := 2
def OFPFMFC_BAD_EMERG_TIMEOUT : Nat := 3
def OFPFMFC_BAD_COMMAND : Nat := 4
def OFPET_BAD_REQUEST : Nat := 1
def OFPBRC_BUFFER_EMPTY : Nat := 7
def OFPBRC_BUFFER_UNKNOWN : Nat := 8
def OFPRR_IDLE_TIMEOUT : Nat := 0
def OFPRR_HARD_TIMEOUT : Nat := 1
def OFPRR_DELETE : Nat := 2

/-- payload of a `TableEntry` -/
structure EData where
  /-- ghost: the `ofp_match` record as transmitted in the flow-mod that created the entry -/
  wire : OfMatch
  actions : List Action
  cookie : Nat
  flags : Nat
  /-- seconds -/
  idle : Nat
  hard : Nat
  /-- milliseconds -/
  created : Nat
  touched : Nat
  packets : Nat
  bytes : Nat
  deriving DecidableEq, Repr

abbrev FEntry := Entry EData

/-- an `ofp_flow_mod` as decoded -/
structure FlowModMsg where
  cmd : Cmd
  /-- the 40-byte `ofp_match` as transmitted -/
  mtch : OfMatch
  cookie : Nat
  idle : Nat
  hard : Nat
  priority : Nat
  outPort : Nat
  flags : Nat
  actions : List Action
  /-- `none` = `NO_BUFFER` (0xffffffff on the wire) -/
  bufferId : Option Nat := none
  deriving DecidableEq, Repr

/-- a buffered frame: what the packet library parsed, its length, its ingress port -/
structure BFrame where
  hdr : PHdr
  len : Nat
  inPort : Nat
  deriving DecidableEq, Repr

structure State where
  table : Table EData
  /-- `time.time()` in milliseconds -/
  now : Nat
  maxEntries : Nat
  /-- `_packet_buffer` -/
  pool : Pool BFrame
  cfg : Cfg

inductive Op where
  | flowMod (fm : FlowModMsg)
  /-- a frame (as the packet library parsed it) of `len` bytes arrives on data-plane port `inPort` -/
  | packet (p : PHdr) (inPort len : Nat)
  /-- the clock advances by `dt` milliseconds -/
  | advance (dt : Nat)
  /-- `table.remove_expired_entries()` -/
  | sweep
  /-- flow-stats / aggregate-stats request (`table_id = 0xff`) with the transmitted match and `out_port` -/
  | flowStats (mtch : OfMatch) (outPort : Nat)
  | aggStats (mtch : OfMatch) (outPort : Nat)

/-- `ofp_flow_removed` as written by the switch (xid aside) -/
structure RemovedMsg where
  /-- ghost: the removed entry's match as it had been transmitted -/
  wire : OfMatch
  /-- the 40 bytes `match.pack()` writes -/
  packed : OfMatch
  cookie : Nat
  priority : Nat
  reason : Nat
  durSec : Nat
  durNsec : Nat
  idle : Nat
  packets : Nat
  bytes : Nat
  deriving DecidableEq, Repr

/-- one `ofp_flow_stats` body -/
structure FlowStat where
  wire : OfMatch
  packed : OfMatch
  durSec : Nat
  durNsec : Nat
  priority : Nat
  idle : Nat
  hard : Nat
  cookie : Nat
  packets : Nat
  bytes : Nat
  actions : List Action
  deriving DecidableEq, Repr

/-- what the switch writes to the controller connection -/
inductive Out where
  | flowRemoved (m : RemovedMsg)
  | error (etype code : Nat)
  /-- `ofp_packet_in` with the buffer id the frame was stored under (`none`: no room; the data carried is C18's subject);
      reason 0 = NO_MATCH (table miss), 1 = ACTION (output:CONTROLLER of the matching entry or of a flow-mod releasing a buffer) -/
  | packetIn (inPort : Nat) (bufferId : Option Nat) (reason : Nat)
  /-- the frame stored under `id` is handed to `_process_actions_for_packet` with `actions`, and its slot is freed -/
  | release (id : Nat) (frame : BFrame) (actions : List Action)
  | flowStats (l : List FlowStat)
  | aggStats (packets bytes flows : Nat)
  deriving DecidableEq, Repr

/-! ## entries -/

/-- `ofp_match.pack()` (`flow_mod=False`): the wildcard word as stored, every field through its attribute view (`x or 0`),
    the IP / transport fields only under the prerequisites `check_ip` / `check_ip_or_arp` / `check_tp` -/
def packPlain (m : OfMatch) : OfMatch :=
  let ip := m.view .dlType == some 0x0800
  let ipArp := ip || m.view .dlType == some 0x0806
  let tp := ip && (match m.view .nwProto with | some p => isL4Proto p | none => false)
  { wildcards := m.wildcards,
    inPort := (m.view .inPort).getD 0, dlSrc := (m.view .dlSrc).getD 0, dlDst := (m.view .dlDst).getD 0,
    dlVlan := (m.view .dlVlan).getD 0, dlVlanPcp := (m.view .dlVlanPcp).getD 0, dlType := (m.view .dlType).getD 0,
    nwTos := if ip then (m.view .nwTos).getD 0 else 0,
    nwProto := if ipArp then (m.view .nwProto).getD 0 else 0,
    nwSrc := if ipArp then (m.srcView.map (·.1)).getD 0 else 0,
    nwDst := if ipArp then (m.dstView.map (·.1)).getD 0 else 0,
    tpSrc := if tp then (m.view .tpSrc).getD 0 else 0,
    tpDst := if tp then (m.view .tpDst).getD 0 else 0 }

/-- the match object a flow-mod's handlers see: `unpack(flow_mod=True)` of the transmitted record, then (repair C04-2)
    `ofp.match.wildcards &= OFPFW_ALL` -/
def rxMatch (cfg : Cfg) (r : OfMatch) : OfMatch :=
  if cfg.maskUndefined then { cfg.mv.ofWire r with wildcards := (cfg.mv.ofWire r).wildcards &&& FW_ALL } else cfg.mv.ofWire r

/-- `TableEntry.from_flow_mod(flow_mod)` at time `now` -/
def mkEntry (cfg : Cfg) (now : Nat) (fm : FlowModMsg) : FEntry :=
  { priority := fm.priority, mtch := rxMatch cfg fm.mtch,
    data := { wire := fm.mtch, actions := fm.actions, cookie := fm.cookie, flags := fm.flags, idle := fm.idle, hard := fm.hard,
              created := now, touched := now, packets := 0, bytes := 0 } }

def outputsTo (p : Nat) : Action → Bool
  | .output q _ => q == p
  | .other _ _ => false

/-- `tos & 0xfc` of a ToS byte -/
def dscpOf (t : Nat) : Nat := t / 4 * 4

/-- a match as the repaired comparisons (D36) read it: `nw_tos & 0xfc` (`None` stays `None`) -/
def dscp (cfg : Cfg) (m : OfMatch) : OfMatch := if cfg.tosDscp then { m with nwTos := dscpOf m.nwTos } else m

/-- `self.matches_with_wildcards(other, consider_other_wildcards)` of the code variant -/
def matchW (cfg : Cfg) (c : Bool) (self other : OfMatch) : Bool := matchesWith c (dscp cfg self) (dscp cfg other)

/-- the strict test of `is_matched_by`: `self.match == match` at HEAD; with repair C04-1
    `match.matches_with_wildcards(self.match) and self.match.matches_with_wildcards(match)` -/
def strictMatch (cfg : Cfg) (entry m : OfMatch) : Bool :=
  if cfg.strictMutual then matchW cfg true m entry && matchW cfg true entry m else eqMatch entry m

/-- `entry.is_matched_by(match, priority, strict, out_port)` -/
def isMatchedBy (cfg : Cfg) (e : FEntry) (m : OfMatch) (prio : Nat) (strict : Bool) (outPort : Option Nat) : Bool :=
  let portOk := match outPort with
    | none => true
    | some p => e.data.actions.any (outputsTo p)
  if strict then portOk && strictMatch cfg e.mtch m && e.priority == prio
  else portOk && matchW cfg true m e.mtch

/-- `touch_packet(byte_count, now)` -/
def touch (len now : Nat) (e : FEntry) : FEntry :=
  { e with data := { e.data with bytes := e.data.bytes + len, packets := e.data.packets + 1, touched := now } }

/-- `idle_timeout > 0 and (now - last_touched) > idle_timeout` -/
def idleOut (now : Nat) (e : FEntry) : Bool := decide (e.data.idle > 0) && decide (now - e.data.touched > e.data.idle * 1000)
/-- `hard_timeout > 0 and (now - created) > hard_timeout` -/
def hardOut (now : Nat) (e : FEntry) : Bool := decide (e.data.hard > 0) && decide (now - e.data.created > e.data.hard * 1000)

/-- `math.modf(now - created)` → `(int(sec), int(frac * 1e9))` -/
def durSec (now : Nat) (e : FEntry) : Nat := (now - e.data.created) / 1000
def durNsec (now : Nat) (e : FEntry) : Nat := (now - e.data.created) % 1000 * 1000000

/-- `entry.to_flow_removed(now, reason)` -/
def removedMsg (now reason : Nat) (e : FEntry) : RemovedMsg :=
  { wire := e.data.wire, packed := packPlain e.mtch, cookie := e.data.cookie, priority := e.priority, reason := reason,
    durSec := durSec now e, durNsec := durNsec now e, idle := e.data.idle, packets := e.data.packets, bytes := e.data.bytes }

/-- `entry.flow_stats(now)` -/
def flowStat (now : Nat) (e : FEntry) : FlowStat :=
  { wire := e.data.wire, packed := packPlain e.mtch, durSec := durSec now e, durNsec := durNsec now e, priority := e.priority,
    idle := e.data.idle, hard := e.data.hard, cookie := e.data.cookie, packets := e.data.packets, bytes := e.data.bytes,
    actions := e.data.actions }

/-- `entry.flags & OFPFF_SEND_FLOW_REM and not entry.flags & OFPFF_EMERG` -/
def wantsRemoved (e : FEntry) : Bool := e.data.flags.testBit FF_SEND_FLOW_REM && !e.data.flags.testBit FF_EMERG

/-- `_handle_FlowTableModification` for `removed = es` and a reason in (IDLE_TIMEOUT, HARD_TIMEOUT, DELETE) -/
def notify (now reason : Nat) (es : List FEntry) : List Out :=
  (es.filter wantsRemoved).map (fun e => Out.flowRemoved (removedMsg now reason e))

/-! ## flow-mod handlers -/

/-- the address part of `_matches_overlap`: both prefixes present ⇒ they agree on the shorter one
    (`IPAddr(x).inNetwork(IPAddr(y).get_network(min(xbits, ybits)))`) -/
def nwOverlap : Option (Nat × Nat) → Option (Nat × Nat) → Bool
  | some (xa, xb), some (ya, yb) => clearLow (32 - min xb yb) xa == clearLow (32 - min xb yb) ya
  | _, _ => true

/-- one flag field of `_matches_overlap`: `x is not None and y is not None and x != y` fails the test -/
def viewOverlap : Option Nat → Option Nat → Bool
  | some x, some y => x == y
  | _, _ => true

/-- `_matches_overlap(a, b)` (`flow_table.py`, repair D23): some packet could match both -/
def overlapsWith (a b : OfMatch) : Bool :=
  Fld.all.all (fun f => viewOverlap (a.view f) (b.view f)) && nwOverlap a.srcView b.srcView && nwOverlap a.dstView b.dstView

/-- `check_for_overlapping_entry(in_entry)` as written: scan in table order, stop at the first lower effective priority -/
def overlapScan (cfg : Cfg) (prio : Nat) (m : OfMatch) : Table EData → Bool
  | [] => false
  | e :: r =>
    if cfg.key e < prio then false
    else if cfg.key e > prio then overlapScan cfg prio m r
    else if overlapsWith (dscp cfg e.mtch) (dscp cfg m) then true
    else overlapScan cfg prio m r

def flowModFailed (s : State) (code : Nat) : State × List Out := (s, [.error OFPET_FLOW_MOD_FAILED code])

/-- the three rejections of an emergency flow-mod (`switch.py:754-778`) -/
def emergCode (fm : FlowModMsg) : Nat :=
  if fm.idle ≠ 0 ∨ fm.hard ≠ 0 then OFPFMFC_BAD_EMERG_TIMEOUT
  else if fm.flags.testBit FF_SEND_FLOW_REM then OFPFMFC_EPERM
  else OFPFMFC_ALL_TABLES_FULL

/-- the table after `if flow_mod.command == OFPFC_ADD: table.remove_matching_entries(match, priority=priority, strict=True)`
    (reason `None`: no flow-removed) -/
def addBase (s : State) (fm : FlowModMsg) : Table EData :=
  match fm.cmd with
  | .add => s.table.filter (fun e => !isMatchedBy s.cfg e (rxMatch s.cfg fm.mtch) fm.priority true none)
  | _ => s.table

/-- `_flow_mod_add` (also reached from `_flow_mod_modify` when nothing matched; `fm.cmd` tells which) -/
def flowModAdd (s : State) (fm : FlowModMsg) : State × List Out :=
  if fm.flags.testBit FF_EMERG then flowModFailed s (emergCode fm)
  else if fm.flags.testBit FF_CHECK_OVERLAP &&
      overlapScan s.cfg (s.cfg.key (mkEntry s.cfg s.now fm)) (rxMatch s.cfg fm.mtch) s.table then
    flowModFailed s OFPFMFC_OVERLAP
  else if (addBase s fm).length ≥ s.maxEntries then flowModFailed { s with table := addBase s fm } OFPFMFC_ALL_TABLES_FULL
  else ({ s with table := addEntryBy s.cfg.key (mkEntry s.cfg s.now fm) (addBase s fm) }, [])

/-- `_flow_mod_modify(strict)` -/
def flowModModify (s : State) (fm : FlowModMsg) (strict : Bool) : State × List Out :=
  let m := rxMatch s.cfg fm.mtch
  if s.table.any (fun e => isMatchedBy s.cfg e m fm.priority strict none) then
    ({ s with table := s.table.map (fun e =>
        if isMatchedBy s.cfg e m fm.priority strict none then { e with data := { e.data with actions := fm.actions } } else e) }, [])
  else flowModAdd s fm

/-- `_flow_mod_delete(strict)` → `remove_matching_entries(..., reason=OFPRR_DELETE)` → `_handle_FlowTableModification` -/
def flowModDelete (s : State) (fm : FlowModMsg) (strict : Bool) : State × List Out :=
  let m := rxMatch s.cfg fm.mtch
  let outPort := if fm.outPort = OFPP_NONE then none else some fm.outPort
  let gone := s.table.filter (fun e => isMatchedBy s.cfg e m fm.priority strict outPort)
  ({ s with table := s.table.filter (fun e => !isMatchedBy s.cfg e m fm.priority strict outPort) }, notify s.now OFPRR_DELETE gone)

/-- the handler `_rx_flow_mod` dispatches to (`flow_mod_handlers[ofp.command]`) -/
def flowModHandler (s : State) (fm : FlowModMsg) : State × List Out :=
  match fm.cmd with
  | .add => flowModAdd s fm
  | .modify => flowModModify s fm false
  | .modifyStrict => flowModModify s fm true
  | .delete => flowModDelete s fm false
  | .deleteStrict => flowModDelete s fm true
  | .unknown _ => flowModFailed s OFPFMFC_BAD_COMMAND

/-- how many of the actions are `output:CONTROLLER` -/
def ctlCount (actions : List Action) : Nat := (actions.filter (outputsTo OFPP_CONTROLLER)).length

/-- `_output_packet(packet, OFPP_CONTROLLER, …)` once per such action: `_buffer_packet` and a packet-in with reason ACTION
    (the frame itself is the one that came in: see `actsOk`) -/
def ctlSend (pool : Pool BFrame) (f : BFrame) : Nat → Pool BFrame × List Out
  | 0 => (pool, [])
  | n + 1 =>
    let a := alloc pool f
    let r := ctlSend a.1 f n
    (r.1, .packetIn f.inPort a.2 1 :: r.2)

/-- `_process_actions_for_packet_from_buffer(actions, buffer_id, ofp)`; `id` is the wire value (unsigned), Python's
    `buffer_id - 1 < 0` is `id = 0`.  The actions run *before* the slot is cleared: a packet sent to the controller again is stored
    in another slot. -/
def bufferUse (s : State) (id : Nat) (actions : List Action) : State × List Out :=
  if id = 0 ∨ id - 1 ≥ s.pool.slots.length then (s, [.error OFPET_BAD_REQUEST OFPBRC_BUFFER_UNKNOWN])
  else match s.pool.slots.getD (id - 1) none with
    | none => (s, [.error OFPET_BAD_REQUEST OFPBRC_BUFFER_EMPTY])
    | some f =>
      let c := ctlSend s.pool f (ctlCount actions)
      ({ s with pool := { c.1 with slots := c.1.slots.set (id - 1) none } }, c.2 ++ [.release id f actions])

/-- the tail of `_rx_flow_mod`: an unknown command returns before it; otherwise — whatever the handler did, including a refusal —
    a named buffer is released through the flow-mod's actions -/
def bufferTail (s : State) (fm : FlowModMsg) : State × List Out :=
  match fm.cmd, fm.bufferId with
  | .unknown _, _ => (s, [])
  | _, none => (s, [])
  | _, some id => bufferUse s id fm.actions

/-- `_rx_flow_mod` -/
def flowModStep (s : State) (fm : FlowModMsg) : State × List Out :=
  let r := flowModHandler s fm
  let b := bufferTail r.1 fm
  (b.1, r.2 ++ b.2)

/-! ## traffic, time, statistics -/

/-- `remove_expired_entries(now)`: idle-expired entries first (reason IDLE_TIMEOUT), then the hard-expired ones among the rest -/
def sweep (s : State) : State × List Out :=
  let idle := s.table.filter (idleOut s.now)
  let hard := s.table.filter (fun e => !idleOut s.now e && hardOut s.now e)
  ({ s with table := s.table.filter (fun e => !idleOut s.now e && !hardOut s.now e) },
   notify s.now OFPRR_IDLE_TIMEOUT idle ++ notify s.now OFPRR_HARD_TIMEOUT hard)

/-- replace the first element satisfying `p` by its image under `f` -/
def modifyFirst {α : Type} (p : α → Bool) (f : α → α) : List α → List α
  | [] => []
  | x :: r => if p x then f x :: r else x :: modifyFirst p f r

/-- `ofp_match.from_packet(packet, in_port, spec_frags=True)` of the code variant; with repair D36 the IPv4 branch stores
    `match.nw_tos = p.tos & 0xfc`: the ToS value of the packet's match is the masked one (an unset `nw_tos` holds 0 either way) -/
def pktMatch (cfg : Cfg) (p : PHdr) (inPort : Nat) : OfMatch := dscp cfg (cfg.mv.fromPacket p inPort)

/-- `entry.match.matches_with_wildcards(packet_match, consider_other_wildcards=False)` -/
def accepts (cfg : Cfg) (pm : OfMatch) (e : FEntry) : Bool := matchW cfg false e.mtch pm

/-- the actions of the first element satisfying `p` -/
def hitActions (p : FEntry → Bool) (t : Table EData) : List Action :=
  match t.find? p with
  | some e => e.data.actions
  | none => []

/-- `rx_packet` / `_lookup_packet`: `entry_for_packet`, `touch_packet(len(packet))`, then the entry's actions — of which the model
    follows the outputs to the controller (each buffers the frame and writes a packet-in); on a miss `_buffer_packet` and a
    packet-in -/
def packetStep (s : State) (p : PHdr) (inPort len : Nat) : State × List Out :=
  let acc := accepts s.cfg (pktMatch s.cfg p inPort)
  if s.table.any acc then
    let c := ctlSend s.pool { hdr := p, len := len, inPort := inPort } (ctlCount (hitActions acc s.table))
    ({ s with table := modifyFirst acc (touch len s.now) s.table, pool := c.1 }, c.2)
  else
    let a := alloc s.pool { hdr := p, len := len, inPort := inPort }
    ({ s with pool := a.1 }, [.packetIn inPort a.2 0])

def portFilter (outPort : Nat) : Option Nat := if outPort = OFPP_NONE then none else some outPort

/-- the match object of a stats request: `unpack(flow_mod=False)`; with repair C04-3 then
    `wildcards = _normalize_wildcards(_unwire_wildcards(wildcards))` -/
def statsMatch (cfg : Cfg) (m : OfMatch) : OfMatch :=
  if cfg.statsUnwire then cfg.mv.ofWire (ofWirePlain m) else ofWirePlain m

/-- `table.matching_entries(match, strict=False, out_port)` for a stats request -/
def statsEntries (s : State) (m : OfMatch) (outPort : Nat) : List FEntry :=
  s.table.filter (fun e => isMatchedBy s.cfg e (statsMatch s.cfg m) 0 false (portFilter outPort))

def step (s : State) : Op → State × List Out
  | .flowMod fm => flowModStep s fm
  | .packet p inPort len => packetStep s p inPort len
  | .advance dt => ({ s with now := s.now + dt }, [])
  | .sweep => sweep s
  | .flowStats m outPort => (s, [.flowStats ((statsEntries s m outPort).map (flowStat s.now))])
  | .aggStats m outPort =>
    let es := statsEntries s m outPort
    (s, [.aggStats (es.map (·.data.packets)).sum (es.map (·.data.bytes)).sum es.length])

def init (cfg : Cfg) (now maxEntries maxBuffers : Nat) : State :=
  { table := [], now := now, maxEntries := maxEntries, pool := { slots := [], max := maxBuffers }, cfg := cfg }

/-- the state after a history and everything written, step by step -/
def run (s : State) : List Op → State × List (List Out)
  | [] => (s, [])
  | op :: ops =>
    let r := step s op
    let rs := run r.1 ops
    (rs.1, r.2 :: rs.2)

end Pox.FlowMod
