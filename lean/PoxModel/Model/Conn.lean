/-! Controller-side OpenFlow connection life cycle and the nexus registry (C09).

What each definition mirrors (line numbers of `/repo` HEAD):
* `Conn`            — the per-connection state of `of_01.Connection.__init__` (pox/openflow/of_01.py:755-793) together with the state of
                      its private `HandshakeOpenFlowHandlers` instance (:280-283: `_features_request_sent`, `_barrier`).
                      `up` = "`con.handlers` is the default table and `connect_time` is set" (both are set, once, by `_finish_connecting`).
* `St.reg`          — `OpenFlowNexus._connections` (pox/openflow/__init__.py:362-406), keyed by `con.dpid` (which can be `None`).
* `St.nextXid`      — `libopenflow_01.generate_xid` (:67-81), the global counter that numbers every message whose `xid` is first read.
* `disconnect`      — `Connection.disconnect` (:823-860) + `OpenFlowNexus._disconnect` (__init__.py:402-406).
* `sendRaw/sendObj` — `Connection.send` (:862-894) of ready bytes / of a message object (packed — xid drawn — only when not disconnected).
* `dispatchHs`      — `HandshakeOpenFlowHandlers.handle_*` (:285-372); `finish` = `_finish_connecting` (:374-395).
* `dispatchUp`      — `DefaultOpenFlowHandlers.handle_*` (:175-260) (+ `handle_OFPST_DESC` :68-72 for a one-part desc reply).
* `deliver`         — one iteration of the dispatch loop of `Connection.read` (:914-950) as driven by `OpenFlow_01_Task.run` (:1143-1147).
* `close`           — `Connection.close` (:805-810) as called by the task when `read()` is `False` or select reports an error (:1093-1104,1145-1147).
* `step (.sendTo)`  — `OpenFlowNexus.sendToDPID` (__init__.py:379-392).

`Cfg` selects between the code as first read (`Cfg.head`) and the code with the repairs (`Cfg.rv v`: the four committed ones, plus C09-5 iff `v`; `Cfg.repaired = Cfg.rv true`):
  `fixD3`   fixes/D03_nexus_disconnect_stale.diff   `_disconnect(dpid, con)` removes the entry only if it is `con`
  `fixDown` fixes/C09-1_no_down_without_up.diff     ConnectionDown only for a connection that was announced (connect_time set)
  `fixRead` fixes/C09-2_read_stops_after_disconnect.diff   `read()` stops dispatching (returns False) once the connection is disconnected
  `fixDpid` fixes/C09-5_features_reply_new_dpid.diff   the default features-reply handler unregisters the connection's old datapath id
            (if the entry is this connection) before it re-registers under a different one
  `fixErr`  fixes/C09-3_hexdump_bytes.diff          `util.hexdump(bytes)` works on Python 3.  Without it the default `handle_ERROR` (:199-206)
            raises while formatting its log line for an error message that carries data (they all do), `read()`'s handler
            raises again while formatting *its* log line (:947-949), the exception leaves `read()` and the task closes the
            connection (:1150-1187).  The model assumes every ofp_error carries data.
All six repairs are committed in /repo, which therefore is `Cfg.repaired`.  The headline theorems of Properties/C09.lean are about it, the `_v`
theorems about `Cfg.rv v` for both values of `v`; the regression witnesses are about `Cfg.without5` and `Cfg.head`.

Not modelled here: listeners that re-enter (Model/ConnL.lean adds those that send / sendToDPID / disconnect; Model/ConnH.lean those that halt an event or unsubscribe), the handshake
features-reply handler's version check (dead behind `read()`'s own version check), a custom
OpenFlowConnectionArbiter (the default one always answers `core.openflow`), message types other than the nine of `Msg`,
multi-part stats replies (C17), framing (C02), xid wrap-around after 2^31-1 messages, the DeferredSender (stubbed: C20).
Core only; total functions; the model itself has no recursion except `List.foldl`/`List.flatMap`, the history observers at the end recurse structurally on the trace. -/
namespace Pox.Conn

structure Cfg where
  fixD3 : Bool
  fixDown : Bool
  fixRead : Bool
  fixErr : Bool
  fixDpid : Bool
  deriving DecidableEq, Repr

/-- the code with the repairs D03, C09-1, C09-2, C09-3; `v` says whether C09-5 (fixes/C09-5_features_reply_new_dpid.diff) is in too.
    `/repo` has all of them: it is `Cfg.rv true = Cfg.repaired`. -/
def Cfg.rv (v : Bool) : Cfg := ⟨true, true, true, true, v⟩
def Cfg.repaired : Cfg := Cfg.rv true
/-- the tree with the commit of C09-5 reverted (regression witnesses; the check still ties to such a tree) -/
def Cfg.without5 : Cfg := Cfg.rv false
def Cfg.head : Cfg := ⟨false, false, false, false, false⟩

/-- messages from the switch (the tag `n` of port_status / packet_in is the message's xid, used only to tell messages apart) -/
inductive Msg where
  | hello
  | featuresReply (d : Nat)
  | statsDesc
  | barrierReply (x : Nat)
  | error (x ty code : Nat)
  | portStatus (n : Nat)
  | echoRequest (x : Nat)
  | packetIn (n : Nat)
  | echoReply (x : Nat)        -- ignored in both handler tables (handshake: no handler; connected: `handle_ECHO_REPLY` is `pass`)
  deriving DecidableEq, Repr

inductive Op where
  | connect                     -- the listener accepts a socket: `Connection(new_sock)`
  | msg (c : Nat) (m : Msg)     -- one complete message arrives on connection `c` and is dispatched by `read()`
  | eof (c : Nat)               -- `read()` is False (EOF / recv error) or select reports an error: the task calls `con.close()`
  | disc (c : Nat)              -- some component calls `con.disconnect()`
  | sockFail (c : Nat)          -- environment: from now on `sock.send` of `c` raises socket.error (not EAGAIN)
  | sendTo (d x : Nat)          -- `core.openflow.sendToDPID(d, <packed barrier request with xid x>)`
  deriving DecidableEq, Repr

inductive EvKind where
  | handshakeComplete | up | features | portStatus | down | packetIn | errorIn | barrierIn | rawStats | switchDesc
  deriving DecidableEq, Repr

/-- an event raised on the nexus (`nexus = true`) or on the Connection object itself -/
structure Event where
  nexus : Bool
  kind : EvKind
  con : Nat
  arg : Nat
  deriving DecidableEq, Repr

/-- everything observable, in the order it happens -/
inductive Out where
  | ev (e : Event)
  | sent (c ty xid : Nat)               -- one OpenFlow message written to the socket of `c`
  | reg (k : Option Nat) (c : Nat)      -- `nexus._connect(con)`: `_connections[k] = c`
  | sendRet (ok : Bool)                 -- return value of sendToDPID
  | closed (c : Nat)                    -- the task closed `c` and stopped selecting on it
  deriving DecidableEq, Repr

structure Conn where
  dpid : Option Nat := none
  /-- `con.ofnexus` is `core.openflow` (set by the handshake's features-reply handler); before that it is the dummy nexus -/
  nexus : Bool := false
  up : Bool := false
  frSent : Bool := false
  /-- `_barrier`: `none` = None, `some none` = request object created but its xid not drawn yet, `some (some x)` -/
  barrier : Option (Option Nat) := none
  /-- `_deferred_port_status` (tags of the queued messages) -/
  deferred : Option (List Nat) := none
  disc : Bool := false
  downRaised : Bool := false
  closed : Bool := false
  broken : Bool := false
  deriving DecidableEq, Repr

structure St where
  n : Nat
  conns : Nat → Conn
  reg : Option Nat → Option Nat
  nextXid : Nat

def init : St := { n := 0, conns := fun _ => {}, reg := fun _ => none, nextXid := 1 }

def St.setConn (s : St) (c : Nat) (k : Conn) : St :=
  { s with conns := fun i => if i = c then k else s.conns i }

def St.setReg (s : St) (k : Option Nat) (v : Option Nat) : St :=
  { s with reg := fun i => if i = k then v else s.reg i }

/-- `nexus._disconnect(k, c)` of the repaired nexus: drop the entry under `k` if it is connection `c` -/
def St.dropOwn (s : St) (k : Option Nat) (c : Nat) : St :=
  if s.reg k = some c then s.setReg k none else s

/-- the pair of raises "on the nexus, then on the connection" used by every default handler -/
def ev2 (kind : EvKind) (c arg : Nat) : List Out :=
  [.ev ⟨true, kind, c, arg⟩, .ev ⟨false, kind, c, arg⟩]

/-- `Connection.disconnect(defer_event = defer)` -/
def disconnect (cfg : Cfg) (s : St) (c : Nat) (defer : Bool) : St × List Out :=
  let k := s.conns c
  -- `self.ofnexus._disconnect(self.dpid[, self])`: the dummy nexus only logs
  let s1 := if !k.nexus || (cfg.fixD3 && s.reg k.dpid != some c) then s else s.setReg k.dpid none
  let raise := k.dpid.isSome && (!cfg.fixDown || k.up) && !k.downRaised && !defer
  (s1.setConn c { k with disc := true, downRaised := k.downRaised || raise },
   if raise then (if k.nexus then [.ev ⟨true, .down, c, 0⟩] else []) ++ [.ev ⟨false, .down, c, 0⟩] else [])

/-- `Connection.send(data)` for bytes that are already packed: `msgs` = (type, xid) of the messages in `data` -/
def sendRaw (cfg : Cfg) (s : St) (c : Nat) (msgs : List (Nat × Nat)) : St × List Out :=
  if (s.conns c).disc then (s, [])
  else if (s.conns c).broken then disconnect cfg s c true
  else (s, msgs.map fun m => .sent c m.1 m.2)

/-- `Connection.send(obj)` for a fresh message object of type `ty`: the xid is drawn by `pack()`, i.e. only when not disconnected.
    Returns the xid drawn, if any. -/
def sendObj (cfg : Cfg) (s : St) (c : Nat) (ty : Nat) : St × List Out × Option Nat :=
  if (s.conns c).disc then (s, [], none)
  else
    let x := s.nextXid
    let r := sendRaw cfg { s with nextXid := x + 1 } c [(ty, x)]
    (r.1, r.2, some x)

/-- `_finish_connecting` -/
def finish (s : St) (c : Nat) : St × List Out :=
  let k := s.conns c
  let s1 := s.setReg k.dpid (some c)
  let head : List Out :=
    .reg k.dpid c :: .ev ⟨true, .handshakeComplete, c, 0⟩ :: (ev2 .up c 0 ++ ev2 .features c 0)
  match k.deferred with
  | some (p :: ps) =>
    (s1.setConn c { k with up := true, deferred := none }, head ++ (p :: ps).flatMap fun n => ev2 .portStatus c n)
  | _ => (s1.setConn c { k with up := true }, head)

/-- `msg.xid != self._barrier.xid` — reading `.xid` of a request that was never packed draws one -/
def barrierXid (s : St) (c : Nat) (b : Option Nat) : St × Nat :=
  match b with
  | some x => (s, x)
  | none =>
    (({ s with nextXid := s.nextXid + 1 }).setConn c { s.conns c with barrier := some (some s.nextXid) }, s.nextXid)

def OFPT_HELLO := 0
def OFPT_ECHO_REPLY := 3
def OFPT_FEATURES_REQUEST := 5
def OFPT_SET_CONFIG := 9
def OFPT_FLOW_MOD := 14
def OFPT_STATS_REQUEST := 16
def OFPT_BARRIER_REQUEST := 18
def OFPET_BAD_REQUEST := 1
def OFPBRC_BAD_TYPE := 1

/-- handshake-state handlers -/
def dispatchHs (cfg : Cfg) (s : St) (c : Nat) (m : Msg) : St × List Out :=
  let k := s.conns c
  match m with
  | .hello =>
    if k.frSent then (s, [])
    else
      -- fr.pack() + ss.pack(): both xids are drawn before send() is entered
      let x := s.nextXid
      let s1 := ({ s with nextXid := x + 2 }).setConn c { k with frSent := true }
      sendRaw cfg s1 c [(OFPT_FEATURES_REQUEST, x), (OFPT_STATS_REQUEST, x + 1)]
  | .featuresReply d =>
    let s1 := s.setConn c { k with dpid := some d, deferred := some [], nexus := true }
    let r1 := sendObj cfg s1 c OFPT_SET_CONFIG
    let r2 := sendObj cfg r1.1 c OFPT_FLOW_MOD
    let s3 := r2.1.setConn c { r2.1.conns c with barrier := some none }
    let r3 := sendObj cfg s3 c OFPT_BARRIER_REQUEST
    (r3.1.setConn c { r3.1.conns c with barrier := some r3.2.2 }, r1.2.1 ++ r2.2.1 ++ r3.2.1)
  | .statsDesc => (s, [])
  | .barrierReply x =>
    match k.barrier with
    | none => (s, [])
    | some b =>
      let r := barrierXid s c b
      if x ≠ r.2 then
        disconnect cfg (r.1.setConn c { r.1.conns c with dpid := none }) c false
      else finish r.1 c
  | .error x ty code =>
    match k.barrier with
    | none => (s, [])
    | some b =>
      let r := barrierXid s c b
      if x ≠ r.2 then (r.1, [])
      else if ty ≠ OFPET_BAD_REQUEST then (r.1, [])
      else if code ≠ OFPBRC_BAD_TYPE then (r.1, [])
      else finish r.1 c
  | .portStatus n =>
    match k.deferred with
    | none => (s, [])
    | some l => (s.setConn c { k with deferred := some (l ++ [n]) }, [])
  | .echoRequest x => sendRaw cfg s c [(OFPT_ECHO_REPLY, x)]
  | .packetIn _ => (s, [])
  | .echoReply _ => (s, [])

/-- `con.close()` by the task, which then drops `c` from its select list -/
def close (cfg : Cfg) (s : St) (c : Nat) : St × List Out :=
  let r := disconnect cfg s c false
  (r.1.setConn c { r.1.conns c with closed := true }, r.2 ++ [.closed c])

/-- connected-state (default) handlers -/
def dispatchUp (cfg : Cfg) (s : St) (c : Nat) (m : Msg) : St × List Out :=
  let k := s.conns c
  match m with
  | .hello => let r := sendObj cfg s c OFPT_FEATURES_REQUEST; (r.1, r.2.1)
  | .featuresReply d =>
    -- C09-5: `if con.dpid != msg.datapath_id: con.ofnexus._disconnect(con.dpid, con)`
    let s0 := if cfg.fixDpid && k.dpid != some d then s.dropOwn k.dpid c else s
    ((s0.setConn c { k with dpid := some d }).setReg (some d) (some c), .reg (some d) c :: ev2 .features c 0)
  | .statsDesc => (s, ev2 .rawStats c 0 ++ ev2 .switchDesc c 0)
  | .barrierReply x => (s, ev2 .barrierIn c x)
  | .error x _ _ =>
    if cfg.fixErr then (s, ev2 .errorIn c x)
    else let r := close cfg s c; (r.1, ev2 .errorIn c x ++ r.2)
  | .portStatus n => (s, ev2 .portStatus c n)
  | .echoRequest x => sendRaw cfg s c [(OFPT_ECHO_REPLY, x)]
  | .packetIn n => (s, ev2 .packetIn c n)
  | .echoReply _ => (s, [])

def deliver (cfg : Cfg) (s : St) (c : Nat) (m : Msg) : St × List Out :=
  if s.n ≤ c then (s, [])
  else if (s.conns c).closed then (s, [])
  else if cfg.fixRead && (s.conns c).disc then close cfg s c
  else if (s.conns c).up then dispatchUp cfg s c m
  else dispatchHs cfg s c m

def step (cfg : Cfg) (s : St) : Op → St × List Out
  | .connect =>
    -- Connection.__init__: send(ofp_hello()) on a working socket
    ({ s with n := s.n + 1, nextXid := s.nextXid + 1 }, [.sent s.n OFPT_HELLO s.nextXid])
  | .msg c m => deliver cfg s c m
  | .eof c => if s.n ≤ c then (s, []) else if (s.conns c).closed then (s, []) else close cfg s c
  | .disc c => if s.n ≤ c then (s, []) else disconnect cfg s c false
  | .sockFail c => if s.n ≤ c then (s, []) else (s.setConn c { s.conns c with broken := true }, [])
  | .sendTo d x =>
    match s.reg (some d) with
    | some c => let r := sendRaw cfg s c [(OFPT_BARRIER_REQUEST, x)]; (r.1, r.2 ++ [.sendRet true])
    | none => (s, [.sendRet false])

/-- a history: newest step first; each entry is the operation and what it made observable -/
abbrev Trace := List (Op × List Out)

def stepT (cfg : Cfg) (p : St × Trace) (op : Op) : St × Trace :=
  ((step cfg p.1 op).1, (op, (step cfg p.1 op).2) :: p.2)

def run (cfg : Cfg) (ops : List Op) : St × Trace := ops.foldl (stepT cfg) (init, [])

/-- all outputs of a history in chronological order -/
def outs (tr : Trace) : List Out := tr.reverse.flatMap (·.2)

/-! ### observers of a history (used only to state the properties; the model never reads them) -/

/-- `op` is a features reply arriving on connection `c` (with which datapath id) -/
def isFeat (op : Op) (c : Nat) : Option Nat :=
  match op with
  | .msg c' (.featuresReply d) => if c' = c then some d else none
  | _ => none

/-- `op` is a port-status message arriving on connection `c` (with which tag) -/
def isPs (op : Op) (c : Nat) : Option Nat :=
  match op with
  | .msg c' (.portStatus n) => if c' = c then some n else none
  | _ => none

/-- the most recent features reply that arrived on `c`: its datapath id and what that step made observable -/
def lastFeat : Trace → Nat → Option (Nat × List Out)
  | [], _ => none
  | (op, o) :: t, c =>
    match isFeat op c with
    | some d => some (d, o)
    | none => lastFeat t c

/-- tags of the port-status messages that arrived on `c` after its most recent features reply, in arrival order -/
def psSince : Trace → Nat → List Nat
  | [], _ => []
  | (op, _) :: t, c =>
    match isFeat op c with
    | some _ => []
    | none =>
      match isPs op c with
      | some n => psSince t c ++ [n]
      | none => psSince t c

def regOf (k : Option Nat) : Out → Option Nat
  | .reg k' c => if k' = k then some c else none
  | _ => none

/-- the connection most recently registered under key `k` (`nexus._connect`), whether or not it still is -/
def lastReg : Trace → Option Nat → Option Nat
  | [], _ => none
  | (_, o) :: t, k =>
    match o.reverse.findSome? (regOf k) with
    | some c => some c
    | none => lastReg t k

def upEv (b : Bool) (c : Nat) : Out := .ev ⟨b, .up, c, 0⟩
def downEv (b : Bool) (c : Nat) : Out := .ev ⟨b, .down, c, 0⟩

end Pox.Conn
