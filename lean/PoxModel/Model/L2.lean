import PoxModel.Model.BufPool
/-! Closed control loop of the L2 learning switch (C11): software-switch datapath + `LearningSwitch` controller logic.

What mirrors what (tree at /repo HEAD):
* `verdict`, `learn`, `reply`           — `LearningSwitch._handle_PacketIn`, pox/forwarding/l2_learning.py:94-174
    (step 1 learn :145, step 2 filter :147-150, step 3 multicast :152-153, step 4 unknown :155-156, step 5 same port :159-164,
     step 6 install :168-174; helpers `flood` :101-123 (hold-down `_flood_delay` = 0, the default), `drop` :125-143)
* `resend`                              — `ofp_packet_out.data` setter given a packet-in, libopenflow_01.py:3585-3607
* `flowModPack`                         — the `data` magic of `ofp_flow_mod.pack`, libopenflow_01.py:2314-2354
    (reuse the buffer id, or flow_mod + barrier + packet_out(data, output:TABLE))
* `rxPacket`                            — `SoftwareSwitchBase.rx_packet`, pox/datapaths/switch.py:470-529 (port check, lookup, touch, miss → buffer + packet-in)
* `rxFlowMod` / `rxPacketOut`           — `_rx_flow_mod` :292-310 + `_flow_mod_add` :747-800, `_rx_packet_out` :312-327
* `doAct`, `doActs`, `fromBuffer`       — `_output_packet` :626-685 (physical port / FLOOD / TABLE) with `real_send`'s ingress and port checks,
    `_process_actions_for_packet` :725-745, `_process_actions_for_packet_from_buffer` :706-723
* `insertFlow`, `lookup`, `touch`, `sweepTable`, `Flow.effPrio`, `Flow.expired` — pox/openflow/flow_table.py:79-83 (effective_priority),
    :224-247 (add_entry), :313-327 (entry_for_packet), :102-134 (touch_packet, timeouts with strict `>`), :295-304 (remove_expired_entries)
* buffer pool                           — `Model/BufPool.lean` (`alloc` = `_buffer_packet`, `use` = `_process_actions_for_packet_from_buffer`)

Abstraction of frames (DESIGN §5 C11): l2_learning installs only matches built by `ofp_match.from_packet`, so a frame is
`(src, dst, etype, key, full, pay)`: `key` injectively encodes the remaining header fields that `from_packet` reads, `full` says
whether that match survives the wire as a fully specified one (IPv4 UDP/TCP/ICMP; otherwise `_unwire_wildcards` wildcards the
transport fields and the entry does not get the "exact match" priority), `pay` stands for bytes no match looks at.  An installed
entry matches exactly the frames with the same header (and the same ingress port unless the entry wildcards it, as the `drop`
flow of step 5 does — it is built by `from_packet(packet)` without `in_port`).
Time is `Nat` milliseconds.  `seen` is a ghost history (every arrival on an existing port), not read by any model code.
Core only; structural recursion only (`rxPacket` on fuel, because output:TABLE re-enters `rx_packet`). -/
namespace Pox.L2
open Pox.BufPool

/- MAC addresses (48-bit numbers) and port numbers are plain `Nat`s (an `abbrev` would hide them from `omega`). -/

structure Frame where
  src : Nat                 -- source MAC
  dst : Nat                 -- destination MAC
  etype : Nat               -- `ethernet.type`
  key : Nat                 -- the other header fields `from_packet` reads (harness: UDP source port / ARP target address)
  full : Bool               -- the switch ranks this frame's from_packet match as exact (`frameFull`)
  pay : Nat                 -- payload bytes no match looks at
  deriving DecidableEq, Repr

/-- `Frame.full` for a real frame: `ofp_match.is_wildcarded` of the match `from_packet(packet, in_port)` builds, after the wire round trip.
    `l4`: the frame is IPv4 TCP/UDP/ICMP (no field is ignored for lack of prerequisites, no wildcard bit is set).  `exactSig`: the tree has
    repair D26 (`is_wildcarded` masks the bits `_unwire_wildcards` sets on ignored fields, libopenflow_01.py `ofp_match.is_wildcarded`), so
    ARP / non-IP matches count as exact too.  Every theorem quantifies over all frames, hence over both settings. -/
def frameFull (exactSig l4 : Bool) : Bool := l4 || exactSig

/-- what `ofp_match.from_packet` keeps of a frame -/
def Frame.hdr (x : Frame) : Frame := { x with pay := 0 }

/-- `EthAddr.is_multicast` (addresses.py:185-193): low bit of the first octet -/
def isMulticast (m : Nat) : Bool := (m / 2 ^ 40) % 2 = 1
/-- `EthAddr.isBridgeFiltered` (addresses.py:146-159): 01-80-C2-00-00-00 … 0F -/
def isBridgeFiltered (m : Nat) : Bool := m / 16 = 0x0180C200000
def LLDP_TYPE : Nat := 0x88cc
def OFPP_MAX : Nat := 0xff00

/-- a flow-table entry as l2_learning creates them -/
structure Flow where
  inPort : Option Nat      -- `none`: in_port wildcarded
  m : Frame                 -- header part of the match
  out : Option Nat         -- actions: `[]` or `[output:port]`
  idle : Nat                -- seconds, 0 = none
  hard : Nat
  created : Nat             -- ms
  touched : Nat
  deriving DecidableEq, Repr

def Flow.matchesPkt (fl : Flow) (p : Nat) (x : Frame) : Prop :=
  (fl.inPort = none ∨ fl.inPort = some p) ∧ fl.m = x.hdr
instance (fl : Flow) (p : Nat) (x : Frame) : Decidable (fl.matchesPkt p x) := by
  unfold Flow.matchesPkt; infer_instance

/-- `TableEntry.effective_priority`: all l2_learning entries carry OFP_DEFAULT_PRIORITY (0x8000) -/
def Flow.effPrio (fl : Flow) : Nat := if fl.inPort.isSome ∧ fl.m.full = true then 65537 else 32768

/-- `is_expired`: strict comparisons, a zero timeout never fires -/
def Flow.expired (fl : Flow) (now : Nat) : Bool :=
  (decide (fl.idle > 0) && decide (now - fl.touched > fl.idle * 1000)) ||
  (decide (fl.hard > 0) && decide (now - fl.created > fl.hard * 1000))

/-- strict match of OFPFC_ADD's `remove_matching_entries(match, priority, strict=True)` (priorities are all equal) -/
def Flow.sameMatch (a b : Flow) : Prop := a.inPort = b.inPort ∧ a.m = b.m
instance (a b : Flow) : Decidable (a.sameMatch b) := by unfold Flow.sameMatch; infer_instance

/-- `add_entry`: before the first entry whose effective priority is not higher (the table is kept sorted descending) -/
def insertFlow : List Flow → Flow → List Flow
  | [], f => [f]
  | e :: r, f => if f.effPrio ≥ e.effPrio then f :: e :: r else e :: insertFlow r f

/-- `_flow_mod_add` -/
def addFlow (t : List Flow) (f : Flow) : List Flow :=
  insertFlow (t.filter fun e => ¬ e.sameMatch f) f

/-- `entry_for_packet` (first match in table order; expiry is NOT consulted) -/
def lookup : List Flow → Nat → Frame → Option Flow
  | [], _, _ => none
  | e :: r, p, x => if e.matchesPkt p x then some e else lookup r p x

/-- the table after `touch_packet` on the entry `lookup` returns -/
def touch : List Flow → Nat → Frame → Nat → List Flow
  | [], _, _, _ => []
  | e :: r, p, x, now => if e.matchesPkt p x then { e with touched := now } :: r else e :: touch r p x now

def sweepTable (t : List Flow) (now : Nat) : List Flow := t.filter fun e => ¬ e.expired now

/-! ### OpenFlow messages (only what this loop uses) -/
inductive Act
  | output (p : Nat)
  | flood
  | table
  deriving DecidableEq, Repr

structure PacketIn where
  buf : Option Nat
  data : Frame
  inPort : Nat
  deriving Repr

structure PacketOut where
  buf : Option Nat
  data : Option Frame
  inPort : Nat
  acts : List Act
  deriving Repr

structure FlowMod where
  inPort : Option Nat
  m : Frame
  idle : Nat
  hard : Nat
  buf : Option Nat
  acts : List Act
  deriving Repr

inductive Msg
  | packetOut (po : PacketOut)
  | flowMod (fm : FlowMod)
  | barrier
  | flowDel (src : Nat)       -- flow_mod OFPFC_DELETE with match {dl_src = src} (only sent by the repaired l2_learning, see `relearnMsgs`)
  deriving Repr

/-! ### controller -/

/-- `msg.data = event.ofp` on a packet_out: take over the buffer id; without one, carry the (complete) data; in_port from the packet-in -/
def resend (pin : PacketIn) (acts : List Act) : PacketOut :=
  { buf := pin.buf, data := match pin.buf with | some _ => none | none => some pin.data, inPort := pin.inPort, acts := acts }

/-- `ofp_flow_mod.pack` with `data` = the packet-in: buffered → name the buffer in the flow_mod; unbuffered → flow_mod, barrier and a
    packet_out carrying the data with the single action output:TABLE -/
def flowModPack (fm : FlowMod) (pin : PacketIn) : List Msg :=
  match pin.buf with
  | some b => [.flowMod { fm with buf := some b }]
  | none => [.flowMod { fm with buf := none }, .barrier,
             .packetOut { buf := none, data := some pin.data, inPort := pin.inPort, acts := [.table] }]

inductive Verdict
  | filtered                -- 2a
  | flood                   -- 3a / 4a
  | samePort                -- 5a
  | forward (q : Nat)      -- 6
  deriving DecidableEq, Repr

/-- `macToPort[a]` / `a in macToPort` on the association list (newest binding first) -/
def macGet : List (Nat × Nat) → Nat → Option Nat
  | [], _ => none
  | (k, v) :: r, a => if a = k then some v else macGet r a

/-- steps 2–5 of `_handle_PacketIn`, evaluated on the table AFTER step 1 -/
def verdict (transparent : Bool) (mac : List (Nat × Nat)) (p : Nat) (x : Frame) : Verdict :=
  if transparent = false ∧ (x.etype = LLDP_TYPE ∨ isBridgeFiltered x.dst = true) then .filtered
  else if isMulticast x.dst = true then .flood
  else match macGet mac x.dst with
    | none => .flood
    | some q => if q = p then .samePort else .forward q

/-- the messages each branch sends.  `dip`: the drop entry of step 5 carries the ingress port (repair C11-K1: `from_packet(packet, event.port)`);
    in the unrepaired code it does not (`from_packet(packet)`) -/
def reply (dip : Bool) (pin : PacketIn) : Verdict → List Msg
  | .filtered =>            -- drop(): only when there is a buffer to release
    match pin.buf with
    | some b => [.packetOut { buf := some b, data := none, inPort := pin.inPort, acts := [] }]
    | none => []
  | .flood => [.packetOut (resend pin [.flood])]
  | .samePort =>            -- drop(10): no actions, idle = hard = 10; match without in_port unless repaired
    [.flowMod { inPort := if dip = true then some pin.inPort else none, m := pin.data.hdr, idle := 10, hard := 10, buf := pin.buf, acts := [] }]
  | .forward q =>
    flowModPack { inPort := some pin.inPort, m := pin.data.hdr, idle := 10, hard := 30, buf := none, acts := [.output q] } pin

/-- `self.macToPort.get(packet.src, event.port) != event.port`: the source is known on another port -/
def moved (mac : List (Nat × Nat)) (src p : Nat) : Bool :=
  match macGet mac src with
  | some q => decide (q ≠ p)
  | none => false

/-- repair C11-K1 (fixes/C11_K1.diff; `relearn` says whether the tree has it): before step 1, when the source shows up on a new port,
    delete the entries cached for it, so that its later frames cannot be absorbed by a flow made for its old port -/
def relearnMsgs (relearn : Bool) (mac : List (Nat × Nat)) (src p : Nat) : List Msg :=
  if relearn = true ∧ moved mac src p = true then [.flowDel src] else []

/-- step 1: `self.macToPort[packet.src] = event.port` (newest binding first; `macGet` reads the newest) -/
def learn (mac : List (Nat × Nat)) (src : Nat) (p : Nat) : List (Nat × Nat) := (src, p) :: mac

/-! ### switch -/
structure Sw where
  nports : Nat
  table : List Flow
  pool : Pool (Frame × Nat)
  mac : List (Nat × Nat)          -- the LearningSwitch object of this connection
  transparent : Bool
  relearn : Bool                   -- the component has repair C11-K1 (delete a moved host's entries)
  dropInPort : Bool                -- … and its drop entry matches the ingress port
  seen : List (Nat × Nat)         -- ghost: every (source, port) that arrived, most recent first

inductive Ev
  | deliver (p : Nat) (x : Frame)   -- DpPacketOut
  | packetIn                         -- a packet-in was sent for this frame
  | stuck                            -- fuel exhausted (never happens: theorem `no_stuck`)
  deriving DecidableEq, Repr

def Sw.ports (s : Sw) : List Nat := List.range' 1 s.nports

/-- `real_send` -/
def realSend (s : Sw) (inPort out : Nat) (x : Frame) : List Ev :=
  if out = inPort then [] else if out ∈ s.ports then [.deliver out x] else []

/-- one output action; `reenter` is `rx_packet` for output:TABLE -/
def doAct (reenter : Sw → Nat → Frame → Sw × List Ev) (s : Sw) (x : Frame) (inPort : Nat) : Act → Sw × List Ev
  | .output q => if q < OFPP_MAX then (s, realSend s inPort q x) else (s, [])
  | .flood => (s, (s.ports.filter (· ≠ inPort)).map fun q => .deliver q x)
  | .table => reenter s inPort x

/-- `_process_actions_for_packet` -/
def doActs (reenter : Sw → Nat → Frame → Sw × List Ev) (s : Sw) (x : Frame) (inPort : Nat) : List Act → Sw × List Ev
  | [] => (s, [])
  | a :: as =>
    let (s1, e1) := doAct reenter s x inPort a
    let (s2, e2) := doActs reenter s1 x inPort as
    (s2, e1 ++ e2)

/-- `_process_actions_for_packet_from_buffer` -/
def fromBuffer (reenter : Sw → Nat → Frame → Sw × List Ev) (s : Sw) (id : Nat) (acts : List Act) : Sw × List Ev :=
  match use s.pool id with
  | (pool', some (x, inPort)) => doActs reenter { s with pool := pool' } x inPort acts
  | (pool', none) => ({ s with pool := pool' }, [])

def actOut : List Act → Option Nat
  | [.output q] => some q
  | _ => none

def rxFlowMod (reenter : Sw → Nat → Frame → Sw × List Ev) (s : Sw) (now : Nat) (fm : FlowMod) : Sw × List Ev :=
  let fl : Flow := { inPort := fm.inPort, m := fm.m, out := actOut fm.acts, idle := fm.idle, hard := fm.hard,
                     created := now, touched := now }
  let s1 := { s with table := addFlow s.table fl }
  match fm.buf with
  | some id => fromBuffer reenter s1 id fm.acts
  | none => (s1, [])

def rxPacketOut (reenter : Sw → Nat → Frame → Sw × List Ev) (s : Sw) (po : PacketOut) : Sw × List Ev :=
  match po.buf with                -- the buffered packet first: data only counts when there is no buffer id (switch.py `_rx_packet_out`)
  | some id => fromBuffer reenter s id po.acts
  | none =>
    match po.data with
    | some x => doActs reenter s x po.inPort po.acts
    | none => (s, [])

def rxMsg (reenter : Sw → Nat → Frame → Sw × List Ev) (s : Sw) (now : Nat) : Msg → Sw × List Ev
  | .packetOut po => rxPacketOut reenter s po
  | .flowMod fm => rxFlowMod reenter s now fm
  | .barrier => (s, [])            -- the barrier reply is not listened to
  | .flowDel src =>                -- `_flow_mod_delete`, non-strict: every entry whose dl_src is `src` (switch.py:847-857)
    ({ s with table := s.table.filter fun e => e.m.src ≠ src }, [])

def rxMsgs (reenter : Sw → Nat → Frame → Sw × List Ev) (s : Sw) (now : Nat) : List Msg → Sw × List Ev
  | [] => (s, [])
  | m :: ms =>
    let (s1, e1) := rxMsg reenter s now m
    let (s2, e2) := rxMsgs reenter s1 now ms
    (s2, e1 ++ e2)

/-- actions of a matched entry -/
def flowActs (fl : Flow) : List Act :=
  match fl.out with
  | some q => [.output q]
  | none => []

/-- `rx_packet`, with the controller answering synchronously (the harness pumps the channel to quiescence) -/
def rxPacket : Nat → Sw → Nat → Nat → Frame → Sw × List Ev
  | 0, s, _, _, _ => (s, [.stuck])
  | fuel + 1, s, now, p, x =>
    if p ∈ s.ports then
      match lookup s.table p x with
      | some fl =>
        doActs (fun s' p' x' => rxPacket fuel s' now p' x') { s with table := touch s.table p x now } x p (flowActs fl)
      | none =>
        let (pool', bid) := alloc s.pool (x, p)
        let pin : PacketIn := { buf := bid, data := x, inPort := p }
        let mac' := learn s.mac x.src p
        let msgs := relearnMsgs s.relearn s.mac x.src p ++ reply s.dropInPort pin (verdict s.transparent mac' p x)
        let (s2, evs) := rxMsgs (fun s' p' x' => rxPacket fuel s' now p' x') { s with pool := pool', mac := mac' } now msgs
        (s2, .packetIn :: evs)
    else (s, [])                   -- "Got packet on missing port"

/-- a frame arrives on a port; two levels of `rx_packet` are all the loop ever needs -/
def arrive (s : Sw) (now : Nat) (p : Nat) (x : Frame) : Sw × List Ev :=
  if p ∈ s.ports then rxPacket 2 { s with seen := (x.src, p) :: s.seen } now p x
  else (s, [])

def deliveries : List Ev → List (Nat × Frame)
  | [] => []
  | .deliver p x :: r => (p, x) :: deliveries r
  | _ :: r => deliveries r

def outPorts (evs : List Ev) : List Nat := (deliveries evs).map (·.1)

/-- ports on which `d` was seen as a source, most recent first -/
def seenPorts (s : Sw) (d : Nat) : List Nat := (s.seen.filter (·.1 = d)).map (·.2)

def sweep (s : Sw) (now : Nat) : Sw := { s with table := sweepTable s.table now }

def init (nports bufs : Nat) (transparent : Bool) (relearn : Bool := false) (dropInPort : Bool := false) : Sw :=
  { nports := nports, table := [], pool := { slots := [], max := bufs }, mac := [], transparent := transparent,
    relearn := relearn, dropInPort := dropInPort, seen := [] }

/-! ### one switch under a history -/
inductive Op
  | rx (p : Nat) (x : Frame)
  | adv (ms : Nat)
  | sweep
  deriving Repr

structure St where
  sw : Sw
  now : Nat

def step (st : St) : Op → St × List Ev
  | .rx p x => let (s, e) := arrive st.sw st.now p x; ({ st with sw := s }, e)
  | .adv ms => ({ st with now := st.now + ms }, [])
  | .sweep => ({ st with sw := sweep st.sw st.now }, [])

def run (st : St) : List Op → St × List (List Ev)
  | [] => (st, [])
  | op :: ops =>
    let (st1, e) := step st op
    let (st2, es) := run st1 ops
    (st2, e :: es)

/-! ### several switches, one clock, loop-free links (a delivery on a link port arrives at the peer; breadth first) -/
structure Net where
  sws : List Sw
  links : List ((Nat × Nat) × (Nat × Nat))
  now : Nat

def peer : List ((Nat × Nat) × (Nat × Nat)) → Nat × Nat → Option (Nat × Nat)
  | [], _ => none
  | (a, b) :: r, e => if a = e then some b else if b = e then some a else peer r e

/-- one hop of a frame: which switch and port it reached, what the switch did; `before`/`after` are the switch's states (ghost, for statements) -/
structure Arrival where
  sw : Nat
  port : Nat
  evs : List Ev
  now : Nat
  before : Sw
  after : Sw

def propagate : Nat → Net → Frame → List (Nat × Nat) → Net × List Arrival × Bool
  | 0, n, _, q => (n, [], q.isEmpty)
  | _ + 1, n, _, [] => (n, [], true)
  | fuel + 1, n, x, (i, p) :: q =>
    match n.sws[i]? with
    | none => propagate fuel n x q
    | some s =>
      let (s', evs) := arrive s n.now p x
      let next := (outPorts evs).filterMap fun o => peer n.links (i, o)
      let (n', log, ok) := propagate fuel { n with sws := n.sws.set i s' } x (q ++ next)
      (n', { sw := i, port := p, evs := evs, now := n.now, before := s, after := s' } :: log, ok)

/-- a network under a history: a host frame enters at a switch port and travels (at most `fuel` hops), the clock advances, one switch sweeps -/
inductive NetOp
  | rx (sw : Nat) (p : Nat) (x : Frame)
  | adv (ms : Nat)
  | sweep (sw : Nat)
  deriving Repr

def netStep (fuel : Nat) (n : Net) : NetOp → Net × List Arrival × Bool
  | .rx i p x => propagate fuel n x [(i, p)]
  | .adv ms => ({ n with now := n.now + ms }, [], true)
  | .sweep i =>
    match n.sws[i]? with
    | some s => ({ n with sws := n.sws.set i (sweep s n.now) }, [], true)
    | none => (n, [], true)

/-- per operation: the frame it carried (if any) and the hops that frame made -/
def netRun (fuel : Nat) (n : Net) : List NetOp → Net × List (Option Frame × List Arrival)
  | [] => (n, [])
  | op :: ops =>
    let (n1, log, _) := netStep fuel n op
    let (n2, logs) := netRun fuel n1 ops
    (n2, ((match op with | .rx _ _ x => some x | _ => none), log) :: logs)

end Pox.L2
