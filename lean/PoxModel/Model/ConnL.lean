import PoxModel.Model.Conn
/-! The C09 model extended with *re-entrant application listeners* (used by the driver so that histories run with such
listeners are compared with a model too; the theorems of Properties/C09.lean are about listeners that do not re-enter, i.e.
about `Lst.none`, for which `stepL` provably coincides with `step`: Proofs/ConnL.lean `stepL_none`).

A listener is attached to the nexus and runs right after the event is raised there, before it is raised on the connection:
* on ConnectionUp it may `con.send(<barrier request 5000+c>)`, `core.openflow.sendToDPID(event.dpid, <barrier request 5000+c>)`
  or `con.disconnect()`;
* on ConnectionDown it may `core.openflow.sendToDPID(event.dpid, <barrier request 6000+c>)`.
What these calls do is the base model's `sendRaw` / `disconnect`; the only nesting that raises further events is
ConnectionUp-listener → disconnect → ConnectionDown-listener, so no recursion is needed.
`stopIfDisc` = fixes/C09-6_finish_connecting_stops_when_disconnected.diff: `_finish_connecting` returns after the nexus-level
ConnectionUp if the connection has been disconnected meanwhile (of_01.py `_finish_connecting`). Core only. -/
namespace Pox.Conn

inductive UpAct where
  | send | sendTo | disc
  deriving DecidableEq, Repr

structure Lst where
  up : Option UpAct := none
  down : Bool := false
  stopIfDisc : Bool := false
  deriving DecidableEq, Repr

def Lst.none : Lst := {}

/-- `core.openflow.sendToDPID(key, <barrier request x>)` called from a listener (its return value is not recorded) -/
def lstSendTo (cfg : Cfg) (s : St) (key : Option Nat) (x : Nat) : St × List Out :=
  match s.reg key with
  | some c2 => sendRaw cfg s c2 [(OFPT_BARRIER_REQUEST, x)]
  | Option.none => (s, [])

/-- `Connection.disconnect` with the ConnectionDown listener running between the nexus-level and the connection-level raise -/
def disconnectL (cfg : Cfg) (l : Lst) (s : St) (c : Nat) (defer : Bool) : St × List Out :=
  let k := s.conns c
  let r := disconnect cfg s c defer
  let raise := k.dpid.isSome && (!cfg.fixDown || k.up) && !k.downRaised && !defer
  if raise && k.nexus && l.down then
    let r2 := lstSendTo cfg r.1 k.dpid (6000 + c)
    (r2.1, [.ev ⟨true, .down, c, 0⟩] ++ r2.2 ++ [.ev ⟨false, .down, c, 0⟩])
  else r

def closeL (cfg : Cfg) (l : Lst) (s : St) (c : Nat) : St × List Out :=
  let r := disconnectL cfg l s c false
  (r.1.setConn c { r.1.conns c with closed := true }, r.2 ++ [.closed c])

/-- `_finish_connecting` with the ConnectionUp listener running between the nexus-level and the connection-level raise -/
def finishL (cfg : Cfg) (l : Lst) (s : St) (c : Nat) : St × List Out :=
  let k := s.conns c
  let s1 := (s.setReg k.dpid (some c)).setConn c { k with up := true }
  let pre : List Out := [.reg k.dpid c, .ev ⟨true, .handshakeComplete, c, 0⟩, .ev ⟨true, .up, c, 0⟩]
  let r : St × List Out :=
    match l.up with
    | Option.none => (s1, [])
    | some .send => sendRaw cfg s1 c [(OFPT_BARRIER_REQUEST, 5000 + c)]
    | some .sendTo => lstSendTo cfg s1 k.dpid (5000 + c)
    | some .disc => disconnectL cfg l s1 c false
  if l.stopIfDisc && (r.1.conns c).disc then (r.1, pre ++ r.2)
  else
    let rest : List Out := .ev ⟨false, .up, c, 0⟩ :: ev2 .features c 0
    match k.deferred with
    | some (p :: ps) =>
      (r.1.setConn c { r.1.conns c with deferred := Option.none },
       pre ++ r.2 ++ rest ++ (p :: ps).flatMap fun n => ev2 .portStatus c n)
    | _ => (r.1, pre ++ r.2 ++ rest)

def dispatchHsL (cfg : Cfg) (l : Lst) (s : St) (c : Nat) (m : Msg) : St × List Out :=
  let k := s.conns c
  match m with
  | .barrierReply x =>
    match k.barrier with
    | Option.none => (s, [])
    | some b =>
      let r := barrierXid s c b
      if x ≠ r.2 then
        disconnect cfg (r.1.setConn c { r.1.conns c with dpid := Option.none }) c false
      else finishL cfg l r.1 c
  | .error x ty code =>
    match k.barrier with
    | Option.none => (s, [])
    | some b =>
      let r := barrierXid s c b
      if x ≠ r.2 then (r.1, [])
      else if ty ≠ OFPET_BAD_REQUEST then (r.1, [])
      else if code ≠ OFPBRC_BAD_TYPE then (r.1, [])
      else finishL cfg l r.1 c
  | m => dispatchHs cfg s c m

def deliverL (cfg : Cfg) (l : Lst) (s : St) (c : Nat) (m : Msg) : St × List Out :=
  if s.n ≤ c then (s, [])
  else if (s.conns c).closed then (s, [])
  else if cfg.fixRead && (s.conns c).disc then closeL cfg l s c
  else if (s.conns c).up then dispatchUp cfg s c m
  else dispatchHsL cfg l s c m

def stepL (cfg : Cfg) (l : Lst) (s : St) : Op → St × List Out
  | .msg c m => deliverL cfg l s c m
  | .eof c => if s.n ≤ c then (s, []) else if (s.conns c).closed then (s, []) else closeL cfg l s c
  | .disc c => if s.n ≤ c then (s, []) else disconnectL cfg l s c false
  | op => step cfg s op

def stepTL (cfg : Cfg) (l : Lst) (p : St × Trace) (op : Op) : St × Trace :=
  ((stepL cfg l p.1 op).1, (op, (stepL cfg l p.1 op).2) :: p.2)

def runL (cfg : Cfg) (l : Lst) (ops : List Op) : St × Trace := ops.foldl (stepTL cfg l) (init, [])

end Pox.Conn
