import PoxModel.Base.Bytes
import PoxModel.Generated.SwitchDispatch
/-! Request handling of the software switch (C13) — `pox/datapaths/switch.py`, class `SoftwareSwitchBase`.

Abstraction level: a message is (type, xid, the body fields that decide the reply); the switch state is the part of the
object those replies read or write.  Matches are abstracted to `MKey` (`none` = every field wildcarded, `some p` = only
`in_port = p` set — both "wildcarded" in the sense of `effective_priority`); actions to (type code, output port).

| Lean                         | Python (line numbers of /repo HEAD + the C13 repairs)                                  |
|------------------------------|----------------------------------------------------------------------------------------|
| `rxTable … actionTable`      | the four tables built by `__init__` (:135-174); compared with `Generated.dispatch`     |
| `rxMessage`                  | `rx_message` (:234-245): `ofp_handlers.get(type)`, `RuntimeError` when absent          |
| `rxHello`                    | `_rx_hello`, `send_hello` (:266-269, :407-416)                                         |
| `runRx` echo/features/…      | `_rx_echo_request` (:271), `_rx_features_request` (:278), `_rx_echo_reply` (:329),     |
|                              | `_rx_barrier_request` (:332), `_rx_get_config_request` (:336), `_rx_set_config` (:358), |
|                              | `_rx_vendor` (:393), `_rx_queue_get_config_request` (:399, with repair D27)            |
| `rxFlowMod`, `flowMod*`      | `_rx_flow_mod` (:292-310), `_flow_mod_add/modify/delete[_strict]`      |
|                              | (:747-842), `FlowTable.add_entry/remove_matching_entries/check_for_overlapping_entry`, |
|                              | `_handle_FlowTableModification` (:215-232: flow-removed notifications)                 |
| `rxPacketOut`, `processActions`, `outputPacket`, `processFromBuffer`, `bufferPacket` |                                 |
|                              | `_rx_packet_out` (:312), `_process_actions_for_packet` (:725), `_output_packet` (:626), |
|                              | `_process_actions_for_packet_from_buffer` (:706), `_buffer_packet` (:687)              |
| `rxPortMod`, `setPortConfigBit` | `_rx_port_mod` (:362-391), `_set_port_config_bit` (:568-614)                        |
| `rxStats`, `runStats`        | `_rx_stats_request` (:343-356), `_stats_*` (:962-1023, with repairs D10, D27, C13-1)   |
| `sendError`                  | `send_error` (:452-468): the error carries the xid of the request                      |

| `lookupPacket`, `rxPacket`   | `_lookup_packet` (:566-589: lookup_count / matched_count, the hit entry's output actions |
|                              | resp. the table-miss packet_in), `rx_packet` (:519-564: missing port, OFPPC_NO_RECV)     |
| `outputAction`               | the OFPP_TABLE branch of `_output_packet` (:739-743): the packet is submitted to the table |

Partial Python operations stay partial: a type code without handler is `Err.runtime` (the `RuntimeError` of :241), a
handler applied to a body of another class is `Err.attr`.  Outside the model, answered with `Err.unmodelled` (C12's):
the enqueue action in a message's own action list, `output:TABLE` in the action list of a flow_mod (the standard allows
OFPP_TABLE in packet_out only) and `output:TABLE` among the actions of a table entry a packet hits (unbounded
re-submission).  `output:TABLE` in a packet_out IS modelled: the packet is looked up with its in_port — that is what the
OFPST_TABLE counters `lookup_count` / `matched_count` count, whichever way the packet reached the table.
`addEntry` is the linear form of the binary search of `FlowTable.add_entry` (same position on a table sorted by
descending priority, which every reachable table is).  Core Lean only, structural recursion only. -/
namespace Pox.SwitchReq
open Pox.Generated.SwitchDispatch

inductive Err
  | key | name | attr | runtime | unmodelled
  /-- `struct.error` while packing a statistics reply part that is longer than a message can be; the `sent` parts before
      it (all flagged REPLY_MORE) are already on the wire -/
  | struct (sent : Nat)
  deriving DecidableEq, Repr

structure Port where
  no : Nat
  hw : Nat
  config : Nat
  state : Nat
  deriving DecidableEq, Repr

/-- abstract match: `none` = all wildcards, `some p` = `in_port = p` only -/
abbrev MKey := Option Nat

structure Act where
  ty : Nat
  port : Nat
  /-- encoded length of the action on the wire -/
  len : Nat := 8
  deriving DecidableEq, Repr

/-- a `TableEntry`: match, priority, cookie, flags, ports of its output actions -/
structure Flow where
  mkey : MKey
  priority : Nat
  cookie : Nat
  flags : Nat
  outs : List Nat
  /-- encoded length of the entry's action list -/
  actsLen : Nat := 0
  /-- `packet_count`, `byte_count` (moved only by data-plane traffic) -/
  packets : Nat := 0
  bytes : Nat := 0
  deriving DecidableEq, Repr

/-- an `ofp_port_stats` entry of `self.port_stats`: the four counters the data path moves -/
structure PortCtr where
  no : Nat
  rxPackets : Nat := 0
  txPackets : Nat := 0
  rxBytes : Nat := 0
  txBytes : Nat := 0
  deriving DecidableEq, Repr

structure SwitchState where
  dpid : Nat
  maxBuffers : Nat
  maxEntries : Nat
  caps : Nat
  actionBits : Nat
  missSendLen : Nat
  configFlags : Nat
  hasSentHello : Bool
  /-- `self.ports` (insertion order) -/
  ports : List Port
  /-- keys of `self.port_stats` (a deleted port keeps its statistics) -/
  portStats : List PortCtr
  table : List Flow
  lookupCount : Nat
  matchedCount : Nat
  /-- `_packet_buffer`: `true` = slot holds a packet -/
  buffers : List Bool
  deriving DecidableEq, Repr

/-- body of a stats request, by the class the decoder chose for the type code -/
inductive StatsReq
  | desc
  | flow (mkey : MKey) (tableId outPort : Nat)
  | aggregate (mkey : MKey) (tableId outPort : Nat)
  | table
  | port (portNo : Nat)
  | queue (portNo queueId : Nat)
  /-- any other type code (vendor 0xffff or unassigned): generic body -/
  | other (stype : Nat)
  deriving DecidableEq, Repr

def StatsReq.stype : StatsReq → Nat
  | .desc => 0 | .flow .. => 1 | .aggregate .. => 2 | .table => 3 | .port _ => 4 | .queue .. => 5 | .other t => t

inductive Msg
  | hello (xid : Nat)
  | echoRequest (xid : Nat) (body : Bytes)
  | echoReply (xid : Nat) (body : Bytes)
  | vendor (xid vendor : Nat)
  | featuresRequest (xid : Nat)
  | getConfigRequest (xid : Nat)
  | setConfig (xid flags missSendLen : Nat)
  /-- `inPort`: the in_port the packet is processed with — `packet_out.in_port` when the message carries the packet, the
      in_port stored with the buffered packet (`_packet_buffer[id-1][1]`, announced in the packet_in that handed the id
      out) when it names a buffer; the buffers themselves stay abstracted to occupancy bits -/
  | packetOut (xid : Nat) (bufferId : Option Nat) (hasData : Bool) (inPort : Nat) (acts : List Act)
  | flowMod (xid command : Nat) (mkey : MKey) (priority cookie flags idle hard outPort : Nat)
      (bufferId : Option Nat) (acts : List Act)
  | portMod (xid portNo hw config mask : Nat)
  | statsRequest (xid : Nat) (req : StatsReq)
  | barrierRequest (xid : Nat)
  | queueGetConfigRequest (xid port : Nat)
  /-- a decodable message whose class is none of the 13 above (error, replies, asynchronous types) -/
  | unhandled (ty xid : Nat)
  deriving DecidableEq, Repr

/-- the 13 controller-to-switch message kinds = the `_rx_*` handlers -/
inductive Kind
  | hello | echoRequest | echoReply | vendor | featuresRequest | getConfigRequest | setConfig | packetOut | flowMod
  | portMod | statsRequest | barrierRequest | queueGetConfigRequest
  deriving DecidableEq, Repr

def Kind.all : List Kind :=
  [.hello, .echoRequest, .echoReply, .vendor, .featuresRequest, .getConfigRequest, .setConfig, .packetOut, .flowMod,
   .portMod, .statsRequest, .barrierRequest, .queueGetConfigRequest]

/-- OFPT code of the kind's message class -/
def Kind.code : Kind → Nat
  | .hello => 0 | .echoRequest => 2 | .echoReply => 3 | .vendor => 4 | .featuresRequest => 5 | .getConfigRequest => 7
  | .setConfig => 9 | .packetOut => 13 | .flowMod => 14 | .portMod => 15 | .statsRequest => 16 | .barrierRequest => 18
  | .queueGetConfigRequest => 20

def Kind.cls : Kind → String
  | .hello => "ofp_hello" | .echoRequest => "ofp_echo_request" | .echoReply => "ofp_echo_reply"
  | .vendor => "ofp_vendor_generic" | .featuresRequest => "ofp_features_request"
  | .getConfigRequest => "ofp_get_config_request" | .setConfig => "ofp_set_config" | .packetOut => "ofp_packet_out"
  | .flowMod => "ofp_flow_mod" | .portMod => "ofp_port_mod" | .statsRequest => "ofp_stats_request"
  | .barrierRequest => "ofp_barrier_request" | .queueGetConfigRequest => "ofp_queue_get_config_request"

def Kind.handler : Kind → String
  | .hello => "_rx_hello" | .echoRequest => "_rx_echo_request" | .echoReply => "_rx_echo_reply"
  | .vendor => "_rx_vendor" | .featuresRequest => "_rx_features_request"
  | .getConfigRequest => "_rx_get_config_request" | .setConfig => "_rx_set_config" | .packetOut => "_rx_packet_out"
  | .flowMod => "_rx_flow_mod" | .portMod => "_rx_port_mod" | .statsRequest => "_rx_stats_request"
  | .barrierRequest => "_rx_barrier_request" | .queueGetConfigRequest => "_rx_queue_get_config_request"

def Msg.kind : Msg → Option Kind
  | .hello _ => some .hello | .echoRequest .. => some .echoRequest | .echoReply .. => some .echoReply
  | .vendor .. => some .vendor | .featuresRequest _ => some .featuresRequest
  | .getConfigRequest _ => some .getConfigRequest | .setConfig .. => some .setConfig
  | .packetOut .. => some .packetOut | .flowMod .. => some .flowMod | .portMod .. => some .portMod
  | .statsRequest .. => some .statsRequest | .barrierRequest _ => some .barrierRequest
  | .queueGetConfigRequest .. => some .queueGetConfigRequest | .unhandled .. => none

def Msg.xid : Msg → Nat
  | .hello x | .echoRequest x _ | .echoReply x _ | .vendor x _ | .featuresRequest x | .getConfigRequest x
  | .setConfig x _ _ | .packetOut x _ _ _ _ | .flowMod x _ _ _ _ _ _ _ _ _ _ | .portMod x _ _ _ _ | .statsRequest x _
  | .barrierRequest x | .queueGetConfigRequest x _ | .unhandled _ x => x

/-- `msg.header_type` -/
def Msg.ofpType (m : Msg) : Nat :=
  match m with
  | .unhandled ty _ => ty
  | _ => match m.kind with
    | some k => k.code
    | none => 0

inductive StatsH | desc | flow | aggregate | table | port | queue
  deriving DecidableEq, Repr
def StatsH.handler : StatsH → String
  | .desc => "_stats_desc" | .flow => "_stats_flow" | .aggregate => "_stats_aggregate" | .table => "_stats_table"
  | .port => "_stats_port" | .queue => "_stats_queue"

inductive FlowModH | add | modify | modifyStrict | delete | deleteStrict
  deriving DecidableEq, Repr
def FlowModH.handler : FlowModH → String
  | .add => "_flow_mod_add" | .modify => "_flow_mod_modify" | .modifyStrict => "_flow_mod_modify_strict"
  | .delete => "_flow_mod_delete" | .deleteStrict => "_flow_mod_delete_strict"

inductive ActH
  | output | setVlanVid | setVlanPcp | stripVlan | setDlSrc | setDlDst | setNwSrc | setNwDst | setNwTos | setTpSrc
  | setTpDst | enqueue
  deriving DecidableEq, Repr
def ActH.handler : ActH → String
  | .output => "_action_output" | .setVlanVid => "_action_set_vlan_vid" | .setVlanPcp => "_action_set_vlan_pcp"
  | .stripVlan => "_action_strip_vlan" | .setDlSrc => "_action_set_dl_src" | .setDlDst => "_action_set_dl_dst"
  | .setNwSrc => "_action_set_nw_src" | .setNwDst => "_action_set_nw_dst" | .setNwTos => "_action_set_nw_tos"
  | .setTpSrc => "_action_set_tp_src" | .setTpDst => "_action_set_tp_dst" | .enqueue => "_action_enqueue"

/-- `self.ofp_handlers` -/
def rxTable : List (Nat × Kind) := Kind.all.map fun k => (k.code, k)
/-- `self.stats_handlers` -/
def statsTable : List (Nat × StatsH) := [(0, .desc), (1, .flow), (2, .aggregate), (3, .table), (4, .port), (5, .queue)]
/-- `self.flow_mod_handlers` -/
def flowModTable : List (Nat × FlowModH) := [(0, .add), (1, .modify), (2, .modifyStrict), (3, .delete), (4, .deleteStrict)]
/-- `self.action_handlers` (default features: every action but vendor) -/
def actionTable : List (Nat × ActH) :=
  [(0, .output), (1, .setVlanVid), (2, .setVlanPcp), (3, .stripVlan), (4, .setDlSrc), (5, .setDlDst), (6, .setNwSrc),
   (7, .setNwDst), (8, .setNwTos), (9, .setTpSrc), (10, .setTpDst), (11, .enqueue)]

/-- the model's handler tables in the vocabulary of the translator -/
def dispatch : Tables where
  rx := rxTable.map fun (c, k) => (c, k.handler)
  stats := statsTable.map fun (c, h) => (c, h.handler)
  flowMod := flowModTable.map fun (c, h) => (c, h.handler)
  action := actionTable.map fun (c, h) => (c, h.handler)

/-- (class, OFPT code) of the 13 kinds, in code order -/
def msgClasses : List (String × Nat) := Kind.all.map fun k => (k.cls, k.code)

/-- request body classes by OFPST code, as the decoder (`ofp_stats_request.unpack`) selects them -/
def statsRequestClasses : List (Nat × String) :=
  [(0, "ofp_desc_stats_request"), (1, "ofp_flow_stats_request"), (2, "ofp_aggregate_stats_request"),
   (3, "ofp_table_stats_request"), (4, "ofp_port_stats_request"), (5, "ofp_queue_stats_request"),
   (65535, "ofp_vendor_stats_generic")]

inductive StatsBody
  | desc
  | flows (l : List Flow)
  | aggregate (packets bytes flowCount : Nat)
  | table (maxEntries active lookup matched : Nat)
  | ports (l : List PortCtr)
  | queues
  deriving DecidableEq, Repr

/-- everything the switch writes to the controller connection -/
inductive Reply
  | hello (xid : Nat)
  | echoReply (xid : Nat) (body : Bytes)
  | featuresReply (xid dpid nBuffers nTables caps actions : Nat) (ports : List Port)
  | getConfigReply (xid flags missSendLen : Nat)
  | barrierReply (xid : Nat)
  /-- `more` = OFPSF_REPLY_MORE: further parts of the same reply follow -/
  | statsReply (xid stype : Nat) (more : Bool) (body : StatsBody)
  /-- `queues = []` always -/
  | queueGetConfigReply (xid port : Nat)
  | error (xid etype code : Nat)
  /-- asynchronous (xid 0) -/
  | packetIn (bufferId : Option Nat)
  /-- asynchronous -/
  | portStatus (reason : Nat) (port : Port)
  /-- asynchronous -/
  | flowRemoved (flow : Flow) (reason : Nat)
  deriving DecidableEq, Repr

/-- asynchronous notifications are not replies -/
def Reply.isAsync : Reply → Bool
  | .packetIn _ | .portStatus .. | .flowRemoved .. => true
  | _ => false

/-- transaction id of a reply (asynchronous messages have none of their own) -/
def Reply.xid? : Reply → Option Nat
  | .hello x | .echoReply x _ | .featuresReply x .. | .getConfigReply x .. | .barrierReply x | .statsReply x ..
  | .queueGetConfigReply x _ | .error x .. => some x
  | .packetIn _ | .portStatus .. | .flowRemoved .. => none

abbrev Res := Except Err (SwitchState × List Reply)

def hasBit (x b : Nat) : Bool := x &&& b != 0
/-- Python `x & ~m` on non-negative ints -/
def clearBits (x m : Nat) : Nat := x ^^^ (x &&& m)

/-- `send_error(type, code, ofp=req)`: the error carries the request's xid -/
def sendError (xid etype code : Nat) : Reply := .error xid etype code

/-! ### packet buffers and actions -/

def firstFree : List Bool → Option Nat
  | [] => none
  | false :: _ => some 0
  | true :: r => (firstFree r).map (· + 1)

/-- `_buffer_packet` -/
def bufferPacket (s : SwitchState) : SwitchState × Option Nat :=
  match firstFree s.buffers with
  | some i => ({ s with buffers := s.buffers.set i true }, some (i + 1))
  | none =>
    if s.buffers.length ≥ s.maxBuffers then (s, none)
    else ({ s with buffers := s.buffers ++ [true] }, some (s.buffers.length + 1))

/-- `_output_packet`: only what reaches the controller connection (OFPP_TABLE: see `outputAction`) -/
def outputPacket (s : SwitchState) (port : Nat) : Res :=
  if port < OFPP_MAX then .ok (s, [])
  else if port = OFPP_IN_PORT then .ok (s, [])
  else if port = OFPP_FLOOD then .ok (s, [])
  else if port = OFPP_ALL then .ok (s, [])
  else if port = OFPP_CONTROLLER then
    .ok ((bufferPacket s).1, [.packetIn (bufferPacket s).2])
  else if port = OFPP_TABLE then .error .unmodelled
  else .ok (s, [])

/-- `entry.match.matches_with_wildcards(packet_match)` on the abstract matches, for a packet that came in on port `p` -/
def hitsPort (p : Nat) (e : Flow) : Bool := e.mkey == none || e.mkey == some p

/-- the output actions of the entry a packet hit, in order (the other actions write nothing to the controller); an
`output:TABLE` among them re-submits the packet without bound — outside the model -/
def runOuts : SwitchState → List Nat → Res
  | s, [] => .ok (s, [])
  | s, p :: r =>
    match outputPacket s p with
    | .error e => .error e
    | .ok (s1, o1) =>
      match runOuts s1 r with
      | .error e => .error e
      | .ok (s2, o2) => .ok (s2, o1 ++ o2)

/-- the in_port is a port of the switch whose OFPPC_NO_PACKET_IN bit is set -/
def noPacketIn (s : SwitchState) (p : Nat) : Bool :=
  match s.ports.find? (·.no == p) with
  | some q => hasBit q.config OFPPC_NO_PACKET_IN
  | none => false

/-- `_lookup_packet`: the packet is looked up in the table (`lookup_count`), the first entry in table order that matches
is hit (`matched_count`, its output actions are carried out); a miss goes to the controller as a packet_in.  The hit
entry's own packet / byte counters are data-path counters (fed as snapshots, like the port counters). -/
def lookupPacket (s : SwitchState) (inPort : Nat) : Res :=
  match s.table.find? (hitsPort inPort) with
  | some e => runOuts { s with lookupCount := s.lookupCount + 1, matchedCount := s.matchedCount + 1 } e.outs
  | none =>
    if noPacketIn s inPort then .ok ({ s with lookupCount := s.lookupCount + 1 }, [])
    else .ok ((bufferPacket { s with lookupCount := s.lookupCount + 1 }).1,
              [.packetIn (bufferPacket { s with lookupCount := s.lookupCount + 1 }).2])

/-- `_action_output` of a message's own action list: OFPP_TABLE submits the packet to the flow table with the in_port it
is processed with (`none`: a flow_mod's action list — outside the model), every other port is `_output_packet` -/
def outputAction (s : SwitchState) (inPort : Option Nat) (port : Nat) : Res :=
  if port = OFPP_TABLE then
    match inPort with
    | some p => lookupPacket s p
    | none => .error .unmodelled
  else outputPacket s port

/-- `_process_actions_for_packet` -/
def processActions (xid : Nat) (inPort : Option Nat) : SwitchState → List Act → Res
  | s, [] => .ok (s, [])
  | s, a :: rest =>
    match actionTable.lookup a.ty with
    | none => .ok (s, [sendError xid OFPET_BAD_ACTION OFPBAC_BAD_TYPE])
    | some .output =>
      match outputAction s inPort a.port with
      | .error e => .error e
      | .ok (s1, o1) =>
        match processActions xid inPort s1 rest with
        | .error e => .error e
        | .ok (s2, o2) => .ok (s2, o1 ++ o2)
    | some .enqueue => .error .unmodelled
    | some _ => processActions xid inPort s rest

/-- buffer id `id` (as on the wire) names a stored packet -/
def bufferLive (s : SwitchState) (id : Nat) : Bool := id != 0 && s.buffers.getD (id - 1) false

/-- `_process_actions_for_packet_from_buffer` (buffer id as on the wire, unsigned; `ofp` is always the triggering
packet_out / flow_mod).  Repair C13-2: an id outside the slot list is answered with BAD_REQUEST/BUFFER_UNKNOWN, an
already flushed slot with BAD_REQUEST/BUFFER_EMPTY. -/
def processFromBuffer (xid : Nat) (inPort : Option Nat) (s : SwitchState) (acts : List Act) (id : Nat) : Res :=
  if id = 0 then .ok (s, [sendError xid OFPET_BAD_REQUEST OFPBRC_BUFFER_UNKNOWN])
  else if h : id - 1 < s.buffers.length then
    if s.buffers[id - 1] then
      match processActions xid inPort s acts with
      | .error e => .error e
      | .ok (s1, o) => .ok ({ s1 with buffers := s1.buffers.set (id - 1) false }, o)
    else .ok (s, [sendError xid OFPET_BAD_REQUEST OFPBRC_BUFFER_EMPTY])
  else .ok (s, [sendError xid OFPET_BAD_REQUEST OFPBRC_BUFFER_UNKNOWN])

/-- `_rx_packet_out` -/
def rxPacketOut (s : SwitchState) (xid : Nat) (bufferId : Option Nat) (hasData : Bool) (inPort : Nat) (acts : List Act) : Res :=
  if hasData then processActions xid (some inPort) s acts
  else match bufferId with
    | some id => processFromBuffer xid (some inPort) s acts id
    | none => .ok (s, [])

/-! ### flow table -/

/-- `req.matches_with_wildcards(entry)` on the abstract matches -/
def subsumes (req entry : MKey) : Bool := req == none || req == entry

def portMatches (outPort : Option Nat) (e : Flow) : Bool :=
  match outPort with
  | none => true
  | some p => e.outs.contains p

/-- `TableEntry.is_matched_by` -/
def isMatchedBy (e : Flow) (mk : MKey) (prio : Nat) (strict : Bool) (outPort : Option Nat) : Bool :=
  if strict then portMatches outPort e && e.mkey == mk && e.priority == prio
  else portMatches outPort e && subsumes mk e.mkey

/-- `check_for_overlapping_entry` -/
def checkOverlap (prio : Nat) (mk : MKey) : List Flow → Bool
  | [] => false
  | e :: r =>
    if e.priority < prio then false
    else if e.priority > prio then checkOverlap prio mk r
    else if subsumes mk e.mkey || subsumes e.mkey mk then true
    else checkOverlap prio mk r

/-- `add_entry`: before the first entry whose priority is not higher -/
def addEntry (e : Flow) : List Flow → List Flow
  | [] => [e]
  | x :: r => if e.priority ≥ x.priority then e :: x :: r else x :: addEntry e r

def outsOf (acts : List Act) : List Nat := (acts.filter (·.ty == 0)).map (·.port)
def actsLenOf (acts : List Act) : Nat := (acts.map (·.len)).sum

def fmErr (xid code : Nat) : Reply := sendError xid OFPET_FLOW_MOD_FAILED code

/-- the table `_flow_mod_add` inserts into: for OFPFC_ADD the identical (strict) entries are removed first -/
def tableForAdd (command : Nat) (t : List Flow) (mk : MKey) (prio : Nat) : List Flow :=
  if command = OFPFC_ADD then t.filter (fun e => !isMatchedBy e mk prio true none) else t

/-- `_flow_mod_add` -/
def flowModAdd (s : SwitchState) (xid command : Nat) (mk : MKey) (prio cookie flags idle hard : Nat) (acts : List Act) :
    SwitchState × List Reply :=
  if hasBit flags OFPFF_EMERG then
    if idle ≠ 0 ∨ hard ≠ 0 then (s, [fmErr xid OFPFMFC_BAD_EMERG_TIMEOUT])
    else if hasBit flags OFPFF_SEND_FLOW_REM then (s, [fmErr xid OFPFMFC_EPERM])
    else (s, [fmErr xid OFPFMFC_ALL_TABLES_FULL])
  else if hasBit flags OFPFF_CHECK_OVERLAP && checkOverlap prio mk s.table then (s, [fmErr xid OFPFMFC_OVERLAP])
  else
    let t1 := tableForAdd command s.table mk prio
    if t1.length ≥ s.maxEntries then ({ s with table := t1 }, [fmErr xid OFPFMFC_ALL_TABLES_FULL])
    else ({ s with table := addEntry { mkey := mk, priority := prio, cookie := cookie, flags := flags, outs := outsOf acts,
                                       actsLen := actsLenOf acts } t1 }, [])

/-- `_flow_mod_modify` -/
def flowModModify (strict : Bool) (s : SwitchState) (xid command : Nat) (mk : MKey) (prio cookie flags idle hard : Nat)
    (acts : List Act) : SwitchState × List Reply :=
  if s.table.any (fun e => isMatchedBy e mk prio strict none) then
    ({ s with table := s.table.map fun e => if isMatchedBy e mk prio strict none then { e with outs := outsOf acts, actsLen := actsLenOf acts } else e }, [])
  else flowModAdd s xid command mk prio cookie flags idle hard acts

/-- removal notification wanted (`_handle_FlowTableModification`) -/
def wantsRemoved (e : Flow) : Bool := hasBit e.flags OFPFF_SEND_FLOW_REM && !hasBit e.flags OFPFF_EMERG

/-- `_flow_mod_delete` -/
def flowModDelete (strict : Bool) (s : SwitchState) (mk : MKey) (prio outPort : Nat) : SwitchState × List Reply :=
  let op := if outPort = OFPP_NONE then none else some outPort
  let removed := s.table.filter (fun e => isMatchedBy e mk prio strict op)
  ({ s with table := s.table.filter (fun e => !isMatchedBy e mk prio strict op) },
   (removed.filter wantsRemoved).map fun e => .flowRemoved e OFPRR_DELETE)

def runFlowMod (h : FlowModH) (s : SwitchState) (xid command : Nat) (mk : MKey) (prio cookie flags idle hard outPort : Nat)
    (acts : List Act) : SwitchState × List Reply :=
  match h with
  | .add => flowModAdd s xid command mk prio cookie flags idle hard acts
  | .modify => flowModModify false s xid command mk prio cookie flags idle hard acts
  | .modifyStrict => flowModModify true s xid command mk prio cookie flags idle hard acts
  | .delete => flowModDelete false s mk prio outPort
  | .deleteStrict => flowModDelete true s mk prio outPort

/-- `_rx_flow_mod` (repair D9: the unknown-command branch sends the error instead of raising `NameError`) -/
def rxFlowModBody (s : SwitchState) (xid command : Nat) (mk : MKey) (prio cookie flags idle hard outPort : Nat)
    (bufferId : Option Nat) (acts : List Act) : Res :=
  match flowModTable.lookup command with
  | none => .ok (s, [fmErr xid OFPFMFC_BAD_COMMAND])
  | some h =>
    let r := runFlowMod h s xid command mk prio cookie flags idle hard outPort acts
    match bufferId with
    | none => .ok r
    | some id =>
      match processFromBuffer xid none r.1 acts id with
      | .error e => .error e
      | .ok (s2, o2) => .ok (s2, r.2 ++ o2)

/-- repair C13-4: an ADD / MODIFY / MODIFY_STRICT whose action list contains a type without handler is refused -/
def badActions (command : Nat) (acts : List Act) : Bool :=
  (command == OFPFC_ADD || command == OFPFC_MODIFY || command == OFPFC_MODIFY_STRICT) &&
    acts.any fun a => (actionTable.lookup a.ty).isNone

/-- largest body of one `ofp_stats_reply`: 65535 minus the 12 header bytes -/
def partLimit : Nat := 65523

/-- repair C13-5: an ADD / MODIFY / MODIFY_STRICT whose flow could not be reported — its `ofp_flow_stats` entry (88 bytes +
actions) would not fit into one statistics reply part — is refused with BAD_ACTION/TOO_MANY -/
def tooManyActions (command : Nat) (acts : List Act) : Bool :=
  (command == OFPFC_ADD || command == OFPFC_MODIFY || command == OFPFC_MODIFY_STRICT) && decide (88 + actsLenOf acts > partLimit)

/-- `_rx_flow_mod`: unknown command, then the action pre-checks (nothing installed, the buffer not touched), then the
command's handler and the buffered packet -/
def rxFlowMod (s : SwitchState) (xid command : Nat) (mk : MKey) (prio cookie flags idle hard outPort : Nat)
    (bufferId : Option Nat) (acts : List Act) : Res :=
  if badActions command acts then .ok (s, [sendError xid OFPET_BAD_ACTION OFPBAC_BAD_TYPE])
  else if tooManyActions command acts then .ok (s, [sendError xid OFPET_BAD_ACTION OFPBAC_TOO_MANY])
  else rxFlowModBody s xid command mk prio cookie flags idle hard outPort bufferId acts

/-! ### port_mod -/

def settableBits : List Nat :=
  [OFPPC_PORT_DOWN, OFPPC_NO_STP, OFPPC_NO_RECV, OFPPC_NO_RECV_STP, OFPPC_NO_FLOOD, OFPPC_NO_FWD, OFPPC_NO_PACKET_IN]

/-- `_set_port_config_bit` (+ `ofp_phy_port.set_config`) -/
def setPortConfigBit (p : Port) (bit value : Nat) : Port × List Reply :=
  if bit = OFPPC_NO_STP then (p, [])
  else if !settableBits.contains bit then (p, [])
  else
    let newc := clearBits p.config bit ||| value
    if (p.config ^^^ newc) ≠ 0 then
      let p1 := { p with config := newc }
      if bit = OFPPC_PORT_DOWN then
        let st := if hasBit newc OFPPC_PORT_DOWN then clearBits p.state OFPPS_LINK_DOWN ||| OFPPS_LINK_DOWN
                  else clearBits p.state OFPPS_LINK_DOWN
        let p2 := { p1 with state := st }
        if (p.state &&& OFPPS_LINK_DOWN) ≠ (st &&& OFPPS_LINK_DOWN) then (p2, [.portStatus OFPPR_MODIFY p2]) else (p2, [])
      else (p1, [])
    else (p, [])

/-- the `for bit in range(32)` loop of `_rx_port_mod` -/
def portModBits (mask config : Nat) : List Nat → Port → Port × List Reply
  | [], p => (p, [])
  | i :: r, p =>
    if hasBit mask (1 <<< i) then
      let r1 := setPortConfigBit p (1 <<< i) (config &&& (1 <<< i))
      let r2 := portModBits mask config r r1.1
      (r2.1, r1.2 ++ r2.2)
    else portModBits mask config r p

/-- `_rx_port_mod` -/
def rxPortMod (s : SwitchState) (xid portNo hw config mask : Nat) : SwitchState × List Reply :=
  match s.ports.find? (·.no == portNo) with
  | none => (s, [sendError xid OFPET_PORT_MOD_FAILED OFPPMFC_BAD_PORT])
  | some p =>
    if p.hw ≠ hw then (s, [sendError xid OFPET_PORT_MOD_FAILED OFPPMFC_BAD_HW_ADDR])
    else
      let r := portModBits mask config (List.range 32) p
      ({ s with ports := s.ports.map fun q => if q.no == portNo then r.1 else q }, r.2)

/-! ### statistics -/

def knownPort (s : SwitchState) (p : Nat) : Bool := s.ports.any (·.no == p)

/-- the flows a flow / aggregate statistics request selects -/
def statsSelect (s : SwitchState) (mk : MKey) (tid op : Nat) : List Flow :=
  if tid ≠ TABLE_ALL ∧ tid ≠ 0 then []
  else s.table.filter fun e => isMatchedBy e mk 0 false (if op = OFPP_NONE then none else some op)

/-- a `_stats_*` handler: the errors it sends itself and the body it returns (`none` = Python `None`: no reply) -/
def runStats (h : StatsH) (s : SwitchState) (xid : Nat) (req : StatsReq) : Except Err (List Reply × Option StatsBody) :=
  match h, req with
  | .desc, _ => .ok ([], some .desc)
  | .flow, .flow mk tid op | .flow, .aggregate mk tid op => .ok ([], some (.flows (statsSelect s mk tid op)))
  | .aggregate, .flow mk tid op | .aggregate, .aggregate mk tid op =>
    .ok ([], some (.aggregate ((statsSelect s mk tid op).map (·.packets)).sum ((statsSelect s mk tid op).map (·.bytes)).sum
                     (statsSelect s mk tid op).length))
  | .table, _ => .ok ([], some (.table s.maxEntries s.table.length s.lookupCount s.matchedCount))
  | .port, .port p =>
    if p = OFPP_NONE then .ok ([], some (.ports s.portStats))
    else .ok ([], some (.ports (s.portStats.filter (·.no == p))))
  | .queue, .queue p q =>
    if p ≠ OFPP_ALL ∧ !knownPort s p then .ok ([sendError xid OFPET_QUEUE_OP_FAILED OFPQOFC_BAD_PORT], none)
    else if q = OFPQ_ALL then .ok ([], some .queues)
    else .ok ([sendError xid OFPET_QUEUE_OP_FAILED OFPQOFC_BAD_QUEUE], none)
  | _, _ => .error .attr

/-! #### multipart replies (repair C13-3): a list body is cut into parts that fit into one message -/

/-- `_split_stats_body`: greedy; `cur` is the part being filled (reversed), `sz` its encoded size -/
def splitGo {α} (size : α → Nat) : List α → List α → Nat → List (List α)
  | [], cur, _ => [cur.reverse]
  | e :: r, cur, sz =>
    if sz + size e > partLimit ∧ cur ≠ [] then cur.reverse :: splitGo size r [e] (size e)
    else splitGo size r (e :: cur) (sz + size e)

def splitParts {α} (size : α → Nat) (l : List α) : List (List α) := splitGo size l [] 0

/-- encoded length of an `ofp_flow_stats` entry / an `ofp_port_stats` entry -/
def flowEntryLen (f : Flow) : Nat := 88 + f.actsLen
def portEntryLen (_ : PortCtr) : Nat := 104

/-- the bodies of the parts a returned body is sent in -/
def bodyParts : StatsBody → List StatsBody
  | .flows l => (splitParts flowEntryLen l).map .flows
  | .ports l => (splitParts portEntryLen l).map .ports
  | b => [b]

/-- encoded length of a reply body -/
def bodyLen : StatsBody → Nat
  | .desc => 1056
  | .flows l => (l.map flowEntryLen).sum
  | .aggregate .. => 24
  | .table .. => 64
  | .ports l => (l.map portEntryLen).sum
  | .queues => 0

/-- all parts but the last carry OFPSF_REPLY_MORE -/
def markParts (xid stype : Nat) : List StatsBody → List Reply
  | [] => []
  | [b] => [.statsReply xid stype false b]
  | b :: r => .statsReply xid stype true b :: markParts xid stype r

/-- `_rx_stats_request` -/
def rxStats (s : SwitchState) (xid : Nat) (req : StatsReq) : Res :=
  match statsTable.lookup req.stype with
  | none => .ok (s, [sendError xid OFPET_BAD_REQUEST OFPBRC_BAD_STAT])
  | some h =>
    match runStats h s xid req with
    | .error e => .error e
    | .ok (errs, none) => .ok (s, errs)
    | .ok (errs, some body) =>
      -- `ofp_stats_reply.pack`: the 16-bit length field (`struct.error` when a part is longer than a message can be,
      -- i.e. when a single entry does not fit)
      if (bodyParts body).all (fun b => bodyLen b ≤ partLimit) then .ok (s, errs ++ markParts xid req.stype (bodyParts body))
      else .error (.struct ((bodyParts body).takeWhile (fun b => bodyLen b ≤ partLimit)).length)

/-! ### dispatch -/

/-- `_rx_hello` / `send_hello` -/
def rxHello (s : SwitchState) : SwitchState × List Reply :=
  if s.hasSentHello then (s, []) else ({ s with hasSentHello := true }, [.hello 0])

/-- the handler `h` applied to the decoded message `m` -/
def runRx (h : Kind) (s : SwitchState) (m : Msg) : Res :=
  match h, m with
  | .hello, .hello _ => .ok (rxHello s)
  | .echoRequest, .echoRequest x b => .ok (s, [.echoReply x b])
  | .echoReply, .echoReply _ _ => .ok (s, [])
  | .vendor, .vendor x _ => .ok (s, [sendError x OFPET_BAD_REQUEST OFPBRC_BAD_VENDOR])
  | .featuresRequest, .featuresRequest x =>
    .ok (s, [.featuresReply x s.dpid s.maxBuffers 1 s.caps s.actionBits s.ports])
  | .getConfigRequest, .getConfigRequest x => .ok (s, [.getConfigReply x s.configFlags s.missSendLen])
  | .setConfig, .setConfig _ f l => .ok ({ s with missSendLen := l, configFlags := f }, [])
  | .packetOut, .packetOut x b d p a => rxPacketOut s x b d p a
  | .flowMod, .flowMod x c mk p ck f i hd op b a => rxFlowMod s x c mk p ck f i hd op b a
  | .portMod, .portMod x p hw c mk => .ok (rxPortMod s x p hw c mk)
  | .statsRequest, .statsRequest x r => rxStats s x r
  | .barrierRequest, .barrierRequest x => .ok (s, [.barrierReply x])
  | .queueGetConfigRequest, .queueGetConfigRequest x p =>
    if !knownPort s p then .ok (s, [sendError x OFPET_QUEUE_OP_FAILED OFPQOFC_BAD_PORT])
    else .ok (s, [.queueGetConfigReply x p])
  | _, _ => .error .attr

/-- `rx_message` -/
def rxMessage (s : SwitchState) (m : Msg) : Res :=
  match rxTable.lookup m.ofpType with
  | none => .error .runtime
  | some h => runRx h s m

/-- a request sequence handled synchronously, one group of written messages per request -/
def run : SwitchState → List Msg → Except Err (SwitchState × List (List Reply))
  | s, [] => .ok (s, [])
  | s, m :: ms =>
    match rxMessage s m with
    | .error e => .error e
    | .ok (s1, o) =>
      match run s1 ms with
      | .error e => .error e
      | .ok (s2, os) => .ok (s2, o :: os)

/-- what the connection carries: the groups in order -/
def stream (gs : List (List Reply)) : List Reply := gs.flatten

/-- driver-only variant: `OFConnection.read` logs a handler exception and goes on with the next message -/
def runTolerant : SwitchState → List Msg → SwitchState × List (Except Err (List Reply))
  | s, [] => (s, [])
  | s, m :: ms =>
    match rxMessage s m with
    | .error e => let r := runTolerant s ms; (r.1, .error e :: r.2)
    | .ok (s1, o) => let r := runTolerant s1 ms; (r.1, .ok o :: r.2)

/-! ### what is not a controller message: connection-level rejections and the data plane -/

/-- port and per-entry counters (and buffer occupancy) of the real switch after data-plane activity; the data path itself
is C12's.  The table counters `lookup_count` / `matched_count` are NOT taken from the switch: the model counts them
itself (`lookupPacket`). -/
structure Snapshot where
  ports : List PortCtr
  /-- (packet_count, byte_count) per table entry, in table order -/
  flows : List (Nat × Nat)
  /-- `none`: buffers untouched -/
  buffers : Option (List Bool)
  deriving Repr

def applyFlowCtrs : List Flow → List (Nat × Nat) → List Flow
  | f :: fs, (p, b) :: cs => { f with packets := p, bytes := b } :: applyFlowCtrs fs cs
  | fs, _ => fs

/-- the counters move (only they, and the buffers when frames reached the controller path) -/
def applySnapshot (s : SwitchState) (n : Snapshot) : SwitchState :=
  { s with portStats := n.ports, table := applyFlowCtrs s.table n.flows,
           buffers := match n.buffers with | some b => b | none => s.buffers }

/-- `rx_packet` for a frame that is neither addressed to the spanning-tree group nor an IP fragment: nothing happens on a
port the switch does not have or whose OFPPC_NO_RECV bit is set; otherwise the frame is looked up in the table -/
def rxPacket (s : SwitchState) (inPort : Nat) : Res :=
  match s.ports.find? (·.no == inPort) with
  | none => .ok (s, [])
  | some q => if hasBit q.config OFPPC_NO_RECV then .ok (s, []) else lookupPacket s inPort

/-- everything that happens at the switch end of the connection, in order -/
inductive Event
  /-- a decoded controller message reaches `rx_message` -/
  | msg (m : Msg)
  /-- `OFConnection.read` rejects a message itself (no unpacker: code OFPBRC_BAD_TYPE = 1; undecodable or ill-sized
      body: code OFPBRC_BAD_LEN = 6) and answers with an error quoting that message (`_error_handler`) -/
  | rejected (xid code : Nat)
  /-- a message with a foreign version octet: HELLO_FAILED/INCOMPATIBLE only while no message has been accepted yet
      (`starting`); the connection is closed in either case -/
  | badVersion (xid : Nat) (starting : Bool)
  /-- data-plane traffic went through the switch: counters as observed afterwards -/
  | traffic (n : Snapshot)
  /-- one frame arrived on port `inPort` (`rx_packet`); port / entry counters and buffer occupancy as observed afterwards -/
  | rx (inPort : Nat) (n : Snapshot)

def stepEv (s : SwitchState) : Event → Res
  | .msg m => rxMessage s m
  | .rejected xid code => .ok (s, [.error xid OFPET_BAD_REQUEST code])
  | .badVersion xid starting => .ok (s, if starting then [.error xid OFPET_HELLO_FAILED OFPHFC_INCOMPATIBLE] else [])
  | .traffic n => .ok (applySnapshot s n, [])
  | .rx p n =>
    match rxPacket s p with
    | .error e => .error e
    | .ok (s1, o) => .ok (applySnapshot s1 n, o)

def runEv : SwitchState → List Event → Except Err (SwitchState × List (List Reply))
  | s, [] => .ok (s, [])
  | s, e :: es =>
    match stepEv s e with
    | .error x => .error x
    | .ok (s1, o) =>
      match runEv s1 es with
      | .error x => .error x
      | .ok (s2, os) => .ok (s2, o :: os)

/-- driver-only: a handler exception is logged and the loop goes on -/
def runEvTolerant : SwitchState → List Event → SwitchState × List (Except Err (List Reply))
  | s, [] => (s, [])
  | s, e :: es =>
    match stepEv s e with
    | .error x => let r := runEvTolerant s es; (r.1, .error x :: r.2)
    | .ok (s1, o) => let r := runEvTolerant s1 es; (r.1, .ok o :: r.2)

/-- what the decoder guarantees about a delivered message: a stats body of the generic class only for type codes without
a dedicated request class, `unhandled` only for type codes of other classes -/
def Msg.WF : Msg → Prop
  | .statsRequest _ (.other t) => 6 ≤ t
  | .unhandled ty _ => rxTable.lookup ty = none
  | _ => True

def actsInScope (acts : List Act) : Prop := ∀ a ∈ acts, a.ty ≠ 11 ∧ ¬ (a.ty = 0 ∧ a.port = OFPP_TABLE)

/-- the part of the action vocabulary the `_partial` theorems cover (no enqueue, no output:TABLE) -/
def Msg.InScope : Msg → Prop
  | .packetOut _ _ _ _ acts => actsInScope acts
  | .flowMod _ _ _ _ _ _ _ _ _ _ acts => actsInScope acts
  | _ => True

end Pox.SwitchReq
