import PoxModel.Model.Handoff
/-! # The model's site table (C07)

For every function of the hand-off machinery: its statements that can touch state visible to another thread, in
source order, each tagged with what it is in the model.  `harness/translate/sites.py` regenerates the same lists
(texts only) from the working tree into `Generated/Sites.lean`.  The TEXTS are evidence (the harness reports whether
they still agree — they change with every refactoring); the obligation is structural: `ops` below (per function the
bag of operations on shared state, helpers inlined) must equal the regenerated `Generated.Sites.ops`
(`Pox.C07.ops_agree`), every action anchored here must be in its function's bag (`Pox.C07.ops_cover`), and order and
conditions are tied by the trace validation on the operations of the shared objects.

Tags: `.act s` = the atomic action `s` of `Model/Handoff.lean`; `.call` = transfers control to another listed
function or to the task/callback (no shared effect of its own); `.loc` = thread-local, immutable configuration, or an
object no other thread can see yet; `.nm` = not modelled here (timers, priorities < 1, quit — C06's territory); `.lk` = the cooperative `Lock`, modelled in
`Model/CoopLock.lean`; `.pg` = the pipe pinger, modelled as the byte counters `hubPipe` / `cltPipe`. -/
namespace Pox.HandoffSites
open Pox.Handoff

inductive Tag
  | act (s : Site)
  | call | loc | nm | lk | pg
  deriving DecidableEq, Repr

def table : List (String × List (String × Tag)) := [
  ("recoco.BaseTask.start", [
      ("self.priority = priority", .loc),
      ("scheduler.fast_schedule(self)", .call),
      ("scheduler.schedule(self)", .call)]),
  ("recoco.Scheduler.callLater", [
      ("with self._lock:", .act .cl_lock),
      ("if self._callLaterTask is None:", .act .cl_isNone),
      ("self._callLaterTask = CallLaterTask()", .act .cl_create),
      ("self._callLaterTask.start(self)", .call),
      ("end with self._lock", .act .cl_unlock),
      ("self._callLaterTask.callLater(func, *args, **kw)", .call)]),
  ("recoco.Scheduler.synchronized", [
      ("s = getattr(self._threadlocal, 'synchronizer', None)", .loc),
      ("s = Synchronizer(self)", .loc),
      ("self._threadlocal.synchronizer = s", .loc),
      ("return s", .loc)]),
  ("recoco.Scheduler.schedule", [
      ("if threading.current_thread() is self._thread:", .loc),
      ("if task in self._ready:", .act .sch_contains),
      ("return False", .call),
      ("self.fast_schedule(task, first)", .call),
      ("return True", .call),
      ("st = ScheduleTask(self, task)", .act .sch_spawn),
      ("st.start(self, fast=True)", .call)]),
  ("recoco.Scheduler.fast_schedule", [
      ("assert task not in self._ready", .act .fs_assert),
      ("self._ready.appendleft(task)", .act .fs_appendleft),
      ("self._ready.append(task)", .act .fs_append),
      ("self._selectHub.break_idle()", .call)]),
  ("recoco.Scheduler.run", [
      ("while self._hasQuit == False:", .nm),
      ("if len(self._ready) == 0:", .act .run_len),
      ("self._selectHub.idle()", .call),
      ("if self._hasQuit:", .nm),
      ("r = self.cycle()", .call),
      ("self._hasQuit = True", .nm),
      ("self._selectHub._cycle()", .nm),
      ("self._allDone = True", .nm)]),
  ("recoco.Scheduler.cycle", [
      ("t = self._ready.popleft()", .act .cyc_pop),
      ("if t.priority >= 1:", .loc),
      ("if len(self._ready) == 0:", .nm),
      ("if t.priority >= self._random():", .nm),
      ("self._ready.append(t)", .nm),
      ("return False", .call),
      ("rv = t.execute()", .call),
      ("return True", .call),
      ("return True", .call),
      ("if rv.execute(t, self) is True:", .call),
      ("self._ready.append(t)", .act .cyc_append),
      ("self._selectHub.registerTimer(t, rv)", .nm),
      ("raise RuntimeError('Must yield a value!')", .nm),
      ("return True", .call)]),
  ("recoco.Select.execute", [
      ("scheduler._selectHub.registerSelect(task, *self._args, **self._kw)", .call)]),
  ("recoco.SelectHub.idle", [
      ("if self._thread:", .loc),
      ("self._event.wait(CYCLE_MAXIMUM)", .act .idle_wait),
      ("self._event.clear()", .act .idle_clear),
      ("self._select(self._tasks, {})", .call)]),
  ("recoco.SelectHub.break_idle", [
      ("if self._thread:", .loc),
      ("self._event.set()", .act .bi_set),
      ("self._cycle()", .call)]),
  ("recoco.SelectHub._threadProc", [
      ("tasks = self._tasks", .loc),
      ("_select = self._select", .loc),
      ("_scheduler = self._scheduler", .loc),
      ("while not _scheduler._hasQuit:", .nm),
      ("_select(tasks, rets)", .call)]),
  ("recoco.SelectHub._select", [
      ("for (t, trl, twl, txl, tto) in tasks.values():", .loc),
      ("expired.append(t)", .nm),
      ("self._return(t, ([], [], []))", .nm),
      ("ro, wo, xo = self._select_func(list(rl.keys()) + [self._pinger], wl.keys(), xl.keys(), timeout)", .act .sel_select),
      ("self._return(timeoutTask, ([], [], []))", .nm),
      ("if self._pinger in ro:", .loc),
      ("self._pinger.pongAll()", .act .sel_pong),
      ("while not self._incoming.empty():", .act .sel_empty),
      ("stuff = self._incoming.get(True)", .act .sel_get),
      ("self._incoming.task_done()", .loc),
      ("ro.remove(self._pinger)", .loc),
      ("rets[task][0].append(i)", .loc),
      ("rets[task][1].append(i)", .nm),
      ("rets[task][2].append(i)", .nm),
      ("for (t, v) in rets.items():", .loc),
      ("self._return(t, v)", .call),
      ("rets.clear()", .loc)]),
  ("recoco.SelectHub.registerSelect", [
      ("self._incoming.put((task, rlist, wlist, xlist, timeout))", .act .rs_put),
      ("self._cycle()", .call)]),
  ("recoco.SelectHub._cycle", [
      ("self._pinger.ping()", .act .cy_ping)]),
  ("recoco.SelectHub._return", [
      ("sleepingTask.rv = returnVal", .loc),
      ("self._scheduler.fast_schedule(sleepingTask)", .call)]),
  ("recoco.ScheduleTask.run", [
      ("if self._task in self._scheduler._ready:", .act .st_contains),
      ("logging.getLogger('recoco').info('Task %s scheduled multiple ' + 'times', self._task)", .loc),
      ("self._scheduler.fast_schedule(self._task, True)", .call),
      ("yield False", .call)]),
  ("recoco.SyncTask.__init__", [
      ("BaseTask.__init__(self)", .loc),
      ("self.inlock = threading.Lock()", .loc),
      ("self.outlock = threading.Lock()", .loc),
      ("self.inlock.acquire()", .loc),
      ("self.outlock.acquire()", .loc)]),
  ("recoco.SyncTask.run", [
      ("yield 0", .call),
      ("self.inlock.release()", .act .sy_relIn),
      ("self.outlock.acquire()", .act .sy_acqOut)]),
  ("recoco.Synchronizer.__enter__", [
      ("self.enter += 1", .loc),
      ("if self.enter == 1:", .loc),
      ("self.syncer = SyncTask()", .act .se_create),
      ("self.syncer.start(self.scheduler)", .call),
      ("self.syncer.inlock.acquire()", .act .se_acqIn),
      ("return self.syncer", .loc)]),
  ("recoco.Synchronizer.__exit__", [
      ("self.enter -= 1", .loc),
      ("if self.enter == 0:", .loc),
      ("self.syncer.outlock.release()", .act .sx_relOut)]),
  ("recoco.CallLaterTask.__init__", [
      ("BaseTask.__init__(self)", .loc),
      ("self._pinger = pox.lib.util.makePinger()", .loc),
      ("self._calls = deque()", .loc)]),
  ("recoco.CallLaterTask.callLater", [
      ("self._calls.append((func, args, kw))", .act .clt_append),
      ("self._pinger.ping()", .act .clt_ping)]),
  ("recoco.CallLaterTask.run", [
      ("yield Select([self._pinger], None, None)", .call),
      ("self._pinger.pongAll()", .act .clt_pong),
      ("e = self._calls.popleft()", .act .clt_pop),
      ("e[0](*e[1], **e[2])", .act .clt_call)]),
  ("recoco._LockAcquire.execute", [
      ("return self._parent._do_acquire(task, scheduler, self._blocking)", .lk)]),
  ("recoco._LockRelease.execute", [
      ("return self._parent._do_release(task, scheduler)", .lk)]),
  ("recoco.Lock.__init__", [
      ("self._locked = locked", .lk),
      ("self._waiting = set()", .lk)]),
  ("recoco.Lock._do_release", [
      ("if not self._locked:", .lk),
      ("raise RuntimeError(\"You haven't locked this lock\")", .lk),
      ("self._locked = None", .lk),
      ("if self._waiting:", .lk),
      ("t = self._waiting.pop()", .lk),
      ("self._locked = t", .lk),
      ("t.rv = True", .lk),
      ("scheduler.fast_schedule(t)", .lk),
      ("return True", .lk)]),
  ("recoco.Lock._do_acquire", [
      ("if not self._locked:", .lk),
      ("self._locked = task", .lk),
      ("task.rv = True", .lk),
      ("return True", .lk),
      ("task.rv = False", .lk),
      ("return True", .lk),
      ("self._waiting.add(task)", .lk)]),
  ("core.POXCore.callLater", [
      ("return _self.call_later(_func, *args, **kw)", .call)]),
  ("core.POXCore.call_later", [
      ("_self.scheduler.callLater(_func, *args, **kw)", .call)]),
  ("core.POXCore.raiseLater", [
      ("_self.scheduler.callLater(_obj.raiseEvent, *args, **kw)", .call)]),
  ("util.make_pinger.PipePinger.ping", [
      ("os.write(self._w, b' ')", .pg)]),
  ("util.make_pinger.PipePinger.pongAll", [
      ("return self.pong_all()", .pg)]),
  ("util.make_pinger.PipePinger.pong_all", [
      ("os.read(self._r, 1024)", .pg)])
]

/-- statements for which a known repair changes the text but not what the statement is in the model: (repaired text,
    text in the table).  `if not self._locked:` tests the truthiness of the holder *task object*; the repair
    fixes/C07-2_lock_falsy_holder.diff compares with None/False instead, which is what `Model/CoopLock.lean` models
    (`Holder.task t` is always "taken"); with the original text the model is right only for truthy task objects. -/
def repaired : List (String × String) :=
  [("if self._locked is None or self._locked is False:", "if not self._locked:")]

def normalize (fns : List (String × List String)) : List (String × List String) :=
  fns.map fun (f, l) => (f, l.map fun t =>
    match repaired.find? (·.1 = t) with
    | some (_, orig) => orig
    | none => t)

/-- the texts only: what the translator must regenerate -/
def texts : List (String × List String) := table.map fun (f, l) => (f, l.map (·.1))

/-- every site that stands for a statement of the source (all but the harness-defined ones) -/
def anchored : List Site := table.flatMap fun (_, l) => l.filterMap fun (_, t) =>
  match t with
  | .act s => some s
  | _ => none

/-- sites defined by the harness rather than by a recoco statement: a foreign thread picking its next operation, and
    the body of a user task -/
def harnessSites : List Site := [.f_begin, .user_body]

def allSites : List Site :=
  [.f_begin, .cl_lock, .cl_isNone, .cl_create, .cl_unlock, .clt_append, .clt_ping, .sch_spawn, .fs_assert, .fs_append,
   .fs_appendleft, .bi_set, .cy_ping, .se_create, .se_acqIn, .sx_relOut, .run_len, .idle_wait, .idle_clear, .cyc_pop,
   .cyc_append, .user_body, .st_contains, .sch_contains, .sy_relIn, .sy_acqOut, .rs_put, .clt_pong, .clt_pop, .clt_call, .sel_select,
   .sel_pong, .sel_empty, .sel_get]


/-! ## structural summary (the obligation tied to the working tree by `decide`)

Per function: the BAG of operations on (potentially) shared state — method calls named like an operation of a deque / set /
lock / event / queue / pinger / thread, `with`, `in` ("contains"), `len`, attribute stores ("write:attr"), object creation
("new:Class"), yield / raise / assert, calls of other listed functions ("call:name") — with helpers that are not listed
themselves inlined (harness/translate/sites.py, `ops`).  Unlike the statement texts of `table`, this summary does not change
when a helper is extracted, a local is renamed, a log call is rewritten or branches are reordered; ORDER and CONDITIONS of the
operations are tied dynamically (every operation executed on a shared object must be the model's next action of that thread).
`siteOp` says which operation each model action is; `Pox.C07.ops_cover` checks that every action the table anchors in a
function is an operation in that function's bag. -/
def ops : List (String × List (String × Nat)) := [
  ("recoco.BaseTask.start", [("call:fast_schedule", 1), ("call:schedule", 1), ("write:priority", 1)]),
  ("recoco.Scheduler.callLater", [("call:callLater", 1), ("new:CallLaterTask", 1), ("start", 1), ("with", 1), ("write:_callLaterTask", 1)]),
  ("recoco.Scheduler.synchronized", [("new:Synchronizer", 1), ("write:synchronizer", 1)]),
  ("recoco.Scheduler.schedule", [("call:fast_schedule", 1), ("contains", 1), ("new:ScheduleTask", 1), ("start", 1)]),
  ("recoco.Scheduler.fast_schedule", [("append", 1), ("appendleft", 1), ("assert", 1), ("call:break_idle", 1), ("contains", 1)]),
  ("recoco.Scheduler.run", [("call:_cycle", 1), ("call:cycle", 1), ("call:idle", 1), ("len", 1), ("write:_allDone", 1), ("write:_hasQuit", 1)]),
  ("recoco.Scheduler.cycle", [("append", 2), ("call:execute", 2), ("call:registerSelect", 1), ("len", 1), ("popleft", 1), ("raise", 1)]),
  ("recoco.Select.execute", [("call:registerSelect", 1)]),
  ("recoco.SelectHub.idle", [("call:_select", 1), ("clear", 1), ("wait", 1)]),
  ("recoco.SelectHub.break_idle", [("call:_cycle", 1), ("set", 1)]),
  ("recoco.SelectHub._threadProc", [("call:_select", 1)]),
  ("recoco.SelectHub._select", [("append", 4), ("assert", 1), ("call:_return", 3), ("clear", 1), ("contains", 5), ("empty", 1), ("get", 1), ("len", 6), ("pongAll", 1), ("remove", 1)]),
  ("recoco.SelectHub.registerSelect", [("call:_cycle", 1), ("put", 1)]),
  ("recoco.SelectHub._cycle", [("ping", 1)]),
  ("recoco.SelectHub._return", [("call:fast_schedule", 1), ("write:rv", 1)]),
  ("recoco.ScheduleTask.run", [("call:fast_schedule", 1), ("contains", 1), ("yield", 1)]),
  ("recoco.SyncTask.__init__", [("acquire", 2), ("call:__init__", 1), ("new:Lock", 2), ("write:inlock", 1), ("write:outlock", 1)]),
  ("recoco.SyncTask.run", [("acquire", 1), ("release", 1), ("yield", 1)]),
  ("recoco.Synchronizer.__enter__", [("acquire", 1), ("new:SyncTask", 1), ("start", 1), ("write:enter", 1), ("write:syncer", 1)]),
  ("recoco.Synchronizer.__exit__", [("release", 1), ("write:enter", 1)]),
  ("recoco.CallLaterTask.__init__", [("call:__init__", 1), ("write:_calls", 1), ("write:_pinger", 1)]),
  ("recoco.CallLaterTask.callLater", [("append", 1), ("assert", 1), ("ping", 1)]),
  ("recoco.CallLaterTask.run", [("new:Select", 1), ("pongAll", 1), ("popleft", 1), ("yield", 1)]),
  ("recoco._LockAcquire.execute", [("call:_do_acquire", 1)]),
  ("recoco._LockRelease.execute", [("call:_do_release", 1)]),
  ("recoco.Lock.__init__", [("write:_locked", 1), ("write:_waiting", 1)]),
  ("recoco.Lock._do_release", [("call:fast_schedule", 1), ("pop", 1), ("raise", 1), ("write:_locked", 2), ("write:rv", 1)]),
  ("recoco.Lock._do_acquire", [("add", 1), ("write:_locked", 1), ("write:rv", 2)]),
  ("core.POXCore.callLater", [("call:call_later", 1)]),
  ("core.POXCore.call_later", [("call:callLater", 1)]),
  ("core.POXCore.raiseLater", [("call:callLater", 1)]),
  ("util.make_pinger.PipePinger.ping", [("write", 1)]),
  ("util.make_pinger.PipePinger.pongAll", [("pong_all", 1)]),
  ("util.make_pinger.PipePinger.pong_all", [("read", 1)])]

/-- the operation (in the vocabulary of `ops`) a model action performs; `none` = a plain read / a dynamic call -/
def siteOp : Site → Option String
  | .cl_lock | .cl_unlock => some "with"
  | .cl_create => some "new:CallLaterTask"
  | .clt_append | .fs_append | .cyc_append => some "append"
  | .clt_ping | .cy_ping => some "ping"
  | .sch_spawn => some "new:ScheduleTask"
  | .fs_assert | .st_contains | .sch_contains => some "contains"
  | .fs_appendleft => some "appendleft"
  | .bi_set => some "set"
  | .se_create => some "new:SyncTask"
  | .se_acqIn | .sy_acqOut => some "acquire"
  | .sx_relOut | .sy_relIn => some "release"
  | .run_len => some "len"
  | .idle_wait => some "wait"
  | .idle_clear => some "clear"
  | .cyc_pop | .clt_pop => some "popleft"
  | .rs_put => some "put"
  | .clt_pong | .sel_pong => some "pongAll"
  | .sel_empty => some "empty"
  | .sel_get => some "get"
  | .sel_select | .cl_isNone | .clt_call | .f_begin | .user_body => none

/-- every action anchored in a function is an operation of that function's bag -/
def opsCover : Bool :=
  table.all fun (f, rows) => rows.all fun (_, t) =>
    match t with
    | .act s => match siteOp s with
      | some o => (ops.find? (·.1 = f)).any fun (_, bag) => bag.any (·.1 = o)
      | none => true
    | _ => true

end Pox.HandoffSites
