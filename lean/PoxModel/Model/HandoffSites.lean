import PoxModel.Model.Handoff
/-! # The model's site table (C07)

For every function of the hand-off machinery: its statements that can touch state visible to another thread, in
source order, each tagged with what it is in the model.  `harness/translate/sites.py` regenerates the same lists
(texts only) from the working tree into `Generated/Sites.lean`.  The TEXTS are evidence (the harness reports whether
they still agree — they change with every refactoring); the obligation is structural: `ops` below (per function the
bag of operations on shared state, helpers inlined) must equal the regenerated `Generated.Sites.ops`
(`Pox.C07.ops_agree`), every action anchored here must be in its function's bag (`Pox.C07.ops_cover`), and order and
conditions are tied by the trace validation on the operations of the shared objects.

Tags: `.act s` = the atomic action `s` of `Model/Handoff.lean`; `.call` = transfers control to another listed
function or to the task/callback (no shared effect of its own); `.loc` = thread-local, immutable configuration, or an
object no other thread can see yet; `.nm` = not modelled here (timers, priorities < 1, quit — C06's territory); `.lk` = the cooperative `Lock`, modelled in
`Model/CoopLock.lean`; `.pg` = the pipe pinger, modelled as the byte counters `hubPipe` / `cltPipe`. -/
namespace Pox.HandoffSites
open Pox.Handoff

inductive Tag
  | act (s : Site)
  | call | loc | nm | lk | pg
  deriving DecidableEq, Repr

def table : List (String × List (String × Tag)) := [
  ("recoco.BaseTask.start", [
      ("self.priority = priority", .loc),
      ("scheduler.fast_schedule(self)", .call),
      ("scheduler.schedule(self)", .call)]),
  ("recoco.Scheduler.callLater", [
      ("with self._lock:", .act .cl_lock),
      ("if self._callLaterTask is None:", .act .cl_isNone),
      ("self._callLaterTask = CallLaterTask()", .act .cl_create),
      ("self._callLaterTask.start(self)", .call),
      ("end with self._lock", .act .cl_unlock),
      ("self._callLaterTask.callLater(func, *args, **kw)", .call)]),
  ("recoco.Scheduler.synchronized", [
      ("s = getattr(self._threadlocal, 'synchronizer', None)", .loc),
      ("s = Synchronizer(self)", .loc),
      ("self._threadlocal.synchronizer = s", .loc),
      ("return s", .loc)]),
  ("recoco.Scheduler.schedule", [
      ("if threading.current_thread() is self._thread:", .loc),
      ("if task in self._ready:", .act .sch_contains),
      ("return False", .call),
      ("self.fast_schedule(task, first)", .call),
      ("return True", .call),
      ("st = ScheduleTask(self, task)", .act .sch_spawn),
      ("st.start(self, fast=True)", .call)]),
  ("recoco.Scheduler.fast_schedule", [
      ("assert task not in self._ready", .act .fs_assert),
      ("self._ready.appendleft(task)", .act .fs_appendleft),
      ("self._ready.append(task)", .act .fs_append),
      ("self._selectHub.break_idle()", .call)]),
  ("recoco.Scheduler.run", [
      ("while self._hasQuit == False:", .nm),
      ("if len(self._ready) == 0:", .act .run_len),
      ("self._selectHub.idle()", .call),
      ("if self._hasQuit:", .nm),
      ("r = self.cycle()", .call),
      ("self._hasQuit = True", .nm),
      ("self._selectHub._cycle()", .nm),
      ("self._allDone = True", .nm)]),
  ("recoco.Scheduler.cycle", [
      ("t = self._ready.popleft()", .act .cyc_pop),
      ("if t.priority >= 1:", .loc),
      ("if len(self._ready) == 0:", .nm),
      ("if t.priority >= self._random():", .nm),
      ("self._ready.append(t)", .nm),
      ("return False", .call),
      ("rv = t.execute()", .call),
      ("return True", .call),
      ("return True", .call),
      ("if rv.execute(t, self) is True:", .call),
      ("self._ready.append(t)", .act .cyc_append),
      ("self._selectHub.registerTimer(t, rv)", .nm),
      ("raise RuntimeError('Must yield a value!')", .nm),
      ("return True", .call)]),
  ("recoco.Select.execute", [
      ("scheduler._selectHub.registerSelect(task, *self._args, **self._kw)", .call)]),
  ("recoco.SelectHub.idle", [
      ("if self._thread:", .loc),
      ("self._event.wait(CYCLE_MAXIMUM)", .act .idle_wait),
      ("self._event.clear()", .act .idle_clear),
      ("self._select(self._tasks, {})", .call)]),
  ("recoco.SelectHub.break_idle", [
      ("if self._thread:", .loc),
      ("self._event.set()", .act .bi_set),
      ("self._cycle()", .call)]),
  ("recoco.SelectHub._threadProc", [
      ("tasks = self._tasks", .loc),
      ("_select = self._select", .loc),
      ("_scheduler = self._scheduler", .loc),
      ("while not _scheduler._hasQuit:", .nm),
      ("_select(tasks, rets)", .call)]),
  ("recoco.SelectHub._select", [
      ("for (t, trl, twl, txl, tto) in tasks.values():", .loc),
      ("expired.append(t)", .nm),
      ("self._return(t, ([], [], []))", .nm),
      ("ro, wo, xo = self._select_func(list(rl.keys()) + [self._pinger], wl.keys(), xl.keys(), timeout)", .act .sel_select),
      ("self._return(timeoutTask, ([], [], []))", .nm),
      ("if self._pinger in ro:", .loc),
      ("self._pinger.pongAll()", .act .sel_pong),
      ("while not self._incoming.empty():", .act .sel_empty),
      ("stuff = self._incoming.get(True)", .act .sel_get),
      ("self._incoming.task_done()", .loc),
      ("ro.remove(self._pinger)", .loc),
      ("rets[task][0].append(i)", .loc),
      ("rets[task][1].append(i)", .nm),
      ("rets[task][2].append(i)", .nm),
      ("for (t, v) in rets.items():", .loc),
      ("self._return(t, v)", .call),
      ("rets.clear()", .loc)]),
  ("recoco.SelectHub.registerSelect", [
      ("self._incoming.put((task, rlist, wlist, xlist, timeout))", .act .rs_put),
      ("self._cycle()", .call)]),
  ("recoco.SelectHub._cycle", [
      ("self._pinger.ping()", .act .cy_ping)]),
  ("recoco.SelectHub._return", [
      ("sleepingTask.rv = returnVal", .loc),
      ("self._scheduler.fast_schedule(sleepingTask)", .call)]),
  ("recoco.ScheduleTask.run", [
      ("if self._task in self._scheduler._ready:", .act .st_contains),
      ("logging.getLogger('recoco').info('Task %s scheduled multiple ' + 'times', self._task)", .loc),
      ("self._scheduler.fast_schedule(self._task, True)", .call),
      ("yield False", .call)]),
  ("recoco.SyncTask.__init__", [
      ("BaseTask.__init__(self)", .loc),
      ("self.inlock = threading.Lock()", .loc),
      ("self.outlock = threading.Lock()", .loc),
      ("self.inlock.acquire()", .loc),
      ("self.outlock.acquire()", .loc)]),
  ("recoco.SyncTask.run", [
      ("yield 0", .call),
      ("self.inlock.release()", .act .sy_relIn),
      ("self.outlock.acquire()", .act .sy_acqOut)]),
  ("recoco.Synchronizer.__enter__", [
      ("self.enter += 1", .loc),
      ("if self.enter == 1:", .loc),
      ("self.syncer = SyncTask()", .act .se_create),
      ("self.syncer.start(self.scheduler)", .call),
      ("self.syncer.inlock.acquire()", .act .se_acqIn),
      ("return self.syncer", .loc)]),
  ("recoco.Synchronizer.__exit__", [
      ("self.enter -= 1", .loc),
      ("if self.enter == 0:", .loc),
      ("self.syncer.outlock.release()", .act .sx_relOut)]),
  ("recoco.CallLaterTask.__init__", [
      ("BaseTask.__init__(self)", .loc),
      ("self._pinger = pox.lib.util.makePinger()", .loc),
      ("self._calls = deque()", .loc)]),
  ("recoco.CallLaterTask.callLater", [
      ("self._calls.append((func, args, kw))", .act .clt_append),
      ("self._pinger.ping()", .act .clt_ping)]),
  ("recoco.CallLaterTask.run", [
      ("yield Select([self._pinger], None, None)", .call),
      ("self._pinger.pongAll()", .act .clt_pong),
      ("e = self._calls.popleft()", .act .clt_pop),
      ("e[0](*e[1], **e[2])", .act .clt_call)]),
  ("recoco._LockAcquire.execute", [
      ("return self._parent._do_acquire(task, scheduler, self._blocking)", .lk)]),
  ("recoco._LockRelease.execute", [
      ("return self._parent._do_release(task, scheduler)", .lk)]),
  ("recoco.Lock.__init__", [
      ("self._locked = locked", .lk),
      ("self._waiting = set()", .lk)]),
  ("recoco.Lock._do_release", [
      ("if not self._locked:", .lk),
      ("raise RuntimeError(\"You haven't locked this lock\")", .lk),
      ("self._locked = None", .lk),
      ("if self._waiting:", .lk),
      ("t = self._waiting.pop()", .lk),
      ("self._locked = t", .lk),
      ("t.rv = True", .lk),
      ("scheduler.fast_schedule(t)", .lk),
      ("return True", .lk)]),
  ("recoco.Lock._do_acquire", [
      ("if not self._locked:", .lk),
      ("self._locked = task", .lk),
      ("task.rv = True", .lk),
      ("return True", .lk),
      ("task.rv = False", .lk),
      ("return True", .lk),
      ("self._waiting.add(task)", .lk)]),
  ("core.POXCore.callLater", [
      ("return _self.call_later(_func, *args, **kw)", .call)]),
  ("core.POXCore.call_later", [
      ("_self.scheduler.callLater(_func, *args, **kw)", .call)]),
  ("core.POXCore.raiseLater", [
      ("_self.scheduler.callLater(_obj.raiseEvent, *args, **kw)", .call)]),
  ("util.make_pinger.PipePinger.ping", [
      ("os.write(self._w, b' ')", .pg)]),
  ("util.make_pinger.PipePinger.pongAll", [
      ("return self.pong_all()", .pg)]),
  ("util.make_pinger.PipePinger.pong_all", [
      ("os.read(self._r, 1024)", .pg)])
]

/-- statements for which a known repair changes the text but not what the statement is in the model: (repaired text,
    text in the table).  `if not self._locked:` tests the truthiness of the holder *task object*; the repair
    fixes/C07-2_lock_falsy_holder.diff compares with None/False instead, which is what `Model/CoopLock.lean` models
    (`Holder.task t` is always "taken"); with the original text the model is right only for truthy task objects. -/
def repaired : List (String × String) :=
  [("if self._locked is None or self._locked is False:", "if not self._locked:")]

def normalize (fns : List (String × List String)) : List (String × List String) :=
  fns.map fun (f, l) => (f, l.map fun t =>
    match repaired.find? (·.1 = t) with
    | some (_, orig) => orig
    | none => t)

/-- the texts only: what the translator must regenerate -/
def texts : List (String × List String) := table.map fun (f, l) => (f, l.map (·.1))

/-- every site that stands for a statement of the source (all but the harness-defined ones) -/
def anchored : List Site := table.flatMap fun (_, l) => l.filterMap fun (_, t) =>
  match t with
  | .act s => some s
  | _ => none

/-- sites defined by the harness rather than by a recoco statement: a foreign thread picking its next operation, and
    the body of a user task -/
def harnessSites : List Site := [.f_begin, .user_body]

def allSites : List Site :=
  [.f_begin, .cl_lock, .cl_isNone, .cl_create, .cl_unlock, .clt_append, .clt_ping, .sch_spawn, .fs_assert, .fs_append,
   .fs_appendleft, .bi_set, .cy_ping, .se_create, .se_acqIn, .sx_relOut, .run_len, .idle_wait, .idle_clear, .cyc_pop,
   .cyc_append, .user_body, .st_contains, .sch_contains, .sy_relIn, .sy_acqOut, .rs_put, .clt_pong, .clt_pop, .clt_call, .sel_select,
   .sel_pong, .sel_empty, .sel_get]


/-! ## structural summary (the static obligation tied to the working tree by `decide`)

Per ENTRY POINT of the hand-off protocol (the functions listed above): the SET of operations on shared state it can perform,
over the transitive closure of the calls it makes inside recoco.py / core.py / util.py.  An element is `op@role`: `op` = a
method named like an operation of a deque / set / lock / event / queue / pinger (called or picked as a bound method), `with`,
`contains`, `write` (attribute store), `new` (object creation), `call` (a method name several classes define: dynamic dispatch,
not followed), or the bare `yield` / `raise` / `assert`; `role` = the shared object: the last attribute name of the receiver,
seen through local aliases and through parameters bound at followed calls; operations on purely local objects and stores to
attributes nothing in the package reads are not shared state (harness/translate/sites.py, `ops`).  This summary does not
change when helpers are split off or merged (also across classes), loops are merged, locals renamed, branches reordered, log
or debug bookkeeping added; ORDER and CONDITIONS of the operations are tied dynamically (every operation executed on a shared
object must be the model's next action of that thread).  `siteOp` says which element each model action is;
`Pox.C07.ops_cover`: every action the table anchors in a function is an element of that function's set. -/
def ops : List (String × List String) := [
  ("recoco.BaseTask.start", ["append@_ready", "appendleft@_ready", "assert", "call@start", "contains@_ready", "new@ScheduleTask", "ping@_pinger", "set@_event", "write@priority"]),
  ("recoco.Scheduler.callLater", ["call@callLater", "call@start[locked]", "new@CallLaterTask[locked]", "with@_lock", "write@_callLaterTask[locked]"]),
  ("recoco.Scheduler.synchronized", ["new@Synchronizer", "write@synchronizer"]),
  ("recoco.Scheduler.schedule", ["append@_ready", "appendleft@_ready", "assert", "call@start", "contains@_ready", "new@ScheduleTask", "ping@_pinger", "set@_event"]),
  ("recoco.Scheduler.fast_schedule", ["append@_ready", "appendleft@_ready", "assert", "contains@_ready", "ping@_pinger", "set@_event"]),
  ("recoco.Scheduler.run", ["append@_ready", "appendleft@_ready", "assert", "call@execute", "clear@_event", "contains@_ready", "contains@_tasks", "delitem@_tasks", "empty@_incoming", "get@_incoming", "ping@_pinger", "pongAll@_pinger", "popleft@_ready", "put@_incoming", "raise", "set@_event", "setitem@_tasks", "wait@_event", "write@_allDone", "write@_hasQuit", "write@rv"]),
  ("recoco.Scheduler.cycle", ["append@_ready", "call@execute", "ping@_pinger", "popleft@_ready", "put@_incoming", "raise"]),
  ("recoco.Select.execute", ["ping@_pinger", "put@_incoming"]),
  ("recoco.SelectHub.idle", ["append@_ready", "appendleft@_ready", "assert", "clear@_event", "contains@_ready", "contains@_tasks", "delitem@_tasks", "empty@_incoming", "get@_incoming", "ping@_pinger", "pongAll@_pinger", "set@_event", "setitem@_tasks", "wait@_event", "write@rv"]),
  ("recoco.SelectHub.break_idle", ["ping@_pinger", "set@_event"]),
  ("recoco.SelectHub._threadProc", ["append@_ready", "appendleft@_ready", "assert", "contains@_ready", "empty@_incoming", "get@_incoming", "ping@_pinger", "pongAll@_pinger", "set@_event", "write@rv"]),
  ("recoco.SelectHub._select", ["append@_ready", "appendleft@_ready", "assert", "contains@_ready", "empty@_incoming", "get@_incoming", "ping@_pinger", "pongAll@_pinger", "set@_event", "write@rv"]),
  ("recoco.SelectHub.registerSelect", ["ping@_pinger", "put@_incoming"]),
  ("recoco.SelectHub._cycle", ["ping@_pinger"]),
  ("recoco.SelectHub._return", ["append@_ready", "appendleft@_ready", "assert", "contains@_ready", "ping@_pinger", "set@_event", "write@rv"]),
  ("recoco.ScheduleTask.run", ["append@_ready", "appendleft@_ready", "assert", "contains@_ready", "ping@_pinger", "set@_event", "yield"]),
  ("recoco.SyncTask.__init__", ["acquire@inlock", "acquire@outlock", "call@__init__", "new@Lock", "write@inlock", "write@outlock"]),
  ("recoco.SyncTask.run", ["acquire@outlock", "release@inlock", "yield"]),
  ("recoco.Synchronizer.__enter__", ["acquire@inlock", "call@start", "new@SyncTask", "write@enter", "write@syncer"]),
  ("recoco.Synchronizer.__exit__", ["release@outlock", "write@enter"]),
  ("recoco.CallLaterTask.__init__", ["call@__init__", "write@_calls", "write@_pinger"]),
  ("recoco.CallLaterTask.callLater", ["append@_calls", "assert", "ping@_pinger"]),
  ("recoco.CallLaterTask.run", ["new@Select", "pongAll@_pinger", "popleft@_calls", "yield"]),
  ("recoco._LockAcquire.execute", ["add@_waiting", "write@_locked", "write@rv"]),
  ("recoco._LockRelease.execute", ["append@_ready", "appendleft@_ready", "assert", "contains@_ready", "ping@_pinger", "pop@_waiting", "raise", "set@_event", "write@_locked", "write@rv"]),
  ("recoco.Lock.__init__", ["write@_locked", "write@_waiting"]),
  ("recoco.Lock._do_release", ["append@_ready", "appendleft@_ready", "assert", "contains@_ready", "ping@_pinger", "pop@_waiting", "raise", "set@_event", "write@_locked", "write@rv"]),
  ("recoco.Lock._do_acquire", ["add@_waiting", "write@_locked", "write@rv"]),
  ("core.POXCore.callLater", ["call@callLater"]),
  ("core.POXCore.call_later", ["call@callLater"]),
  ("core.POXCore.raiseLater", ["call@callLater"]),
  ("util.make_pinger.PipePinger.ping", ["write@os"]),
  ("util.make_pinger.PipePinger.pongAll", ["call@pong_all"]),
  ("util.make_pinger.PipePinger.pong_all", ["read@os"]),
  ("<unlisted>", ["recoco.Scheduler.__init__: write@_callLaterTask write@_lock write@_ready", "recoco.SelectHub.__init__: write@_event write@_incoming write@_pinger", "recoco.Synchronizer.__init__: write@syncer"])]

/-- the element of `ops` a model action is; `none` = a plain read / a dynamic call / select -/
def siteOp : Site → Option String
  | .cl_lock | .cl_unlock => some "with@_lock"
  | .cl_create => some "new@CallLaterTask[locked]"
  | .clt_append => some "append@_calls"
  | .fs_append | .cyc_append => some "append@_ready"
  | .clt_ping | .cy_ping => some "ping@_pinger"
  | .sch_spawn => some "new@ScheduleTask"
  | .fs_assert | .st_contains | .sch_contains => some "contains@_ready"
  | .fs_appendleft => some "appendleft@_ready"
  | .bi_set => some "set@_event"
  | .se_create => some "new@SyncTask"
  | .se_acqIn => some "acquire@inlock"
  | .sy_acqOut => some "acquire@outlock"
  | .sx_relOut => some "release@outlock"
  | .sy_relIn => some "release@inlock"
  | .idle_wait => some "wait@_event"
  | .idle_clear => some "clear@_event"
  | .cyc_pop => some "popleft@_ready"
  | .clt_pop => some "popleft@_calls"
  | .rs_put => some "put@_incoming"
  | .clt_pong | .sel_pong => some "pongAll@_pinger"
  | .sel_empty => some "empty@_incoming"
  | .sel_get => some "get@_incoming"
  | .run_len | .sel_select | .cl_isNone | .clt_call | .f_begin | .user_body => none

/-- every action anchored in a function is an element of that function's set -/
def opsCover : Bool :=
  table.all fun (f, rows) => rows.all fun (_, t) =>
    match t with
    | .act s => match siteOp s with
      | some o => (ops.find? (·.1 = f)).any fun (_, els) => els.contains o
      | none => true
    | _ => true

/-- elements of `ops` that are NOT an action of `Model/Handoff.lean`, each with the reason.  `Pox.C07.ops_accounted`: every
    element of every entry point's set is a model action (`siteOp`) or listed here — so a NEW operation on shared state does not
    only break `ops_agree` (any change does) but has to be put in one of the two places, under review. -/
def ignored : List (String × String) := [
  -- the cooperative Lock: modelled in Model/CoopLock.lean (sequential; compared operation by operation), not as Handoff actions
  ("add@_waiting", "CoopLock"), ("pop@_waiting", "CoopLock"), ("write@_locked", "CoopLock"), ("write@_waiting", "CoopLock"),
  ("raise", "CoopLock: release of a free lock; Scheduler.cycle: a task yielded None (not modelled)"),
  -- part of a modelled action, or on an object no other thread can see yet, or thread-local
  ("write@_callLaterTask[locked]", "the store of cl_create, under the scheduler's lock"),
  ("write@syncer", "the store of se_create; the Synchronizer belongs to one thread"),
  ("write@enter", "nesting depth of a thread's own Synchronizer"),
  ("write@synchronizer", "thread-local storage"), ("new@Synchronizer", "thread-local object"),
  ("write@inlock", "SyncTask under construction"), ("write@outlock", "SyncTask under construction"), ("new@Lock", "SyncTask under construction"),
  ("write@_calls", "CallLaterTask under construction"), ("write@_pinger", "CallLaterTask under construction"),
  ("new@Select", "the CallLaterTask's `yield Select(...)`: its registration is rs_put"),
  ("write@rv", "a task's result slot, read by that task only"), ("write@priority", "set before the task is shared"),
  -- control transfers (dynamic dispatch: the callee is another entry point or a task), no effect of their own
  ("call@start", "BaseTask.start / Timer.start"), ("call@start[locked]", "the CallLaterTask is started under the scheduler's lock"),
  ("call@callLater", "Scheduler.callLater / CallLaterTask.callLater"), ("call@execute", "task slice / blocking operation"),
  ("call@__init__", "base-class constructor"), ("call@pong_all", "PipePinger / SocketPinger"), ("assert", "fs_assert is its `in`"),
  ("yield", "end of a slice"),
  -- the hub's table of parked tasks: touched only by the one thread that runs _select
  ("contains@_tasks", "hub table"), ("setitem@_tasks", "hub table"), ("delitem@_tasks", "hub table"),
  -- the pinger's pipe: modelled as byte counters (hubPipe / cltPipe), compared with the real PipePinger
  ("write@os", "os.write of one byte = ping"), ("read@os", "os.read of up to 1024 bytes = pongAll"),
  -- not modelled (C06's territory)
  ("write@_hasQuit", "quit"), ("write@_allDone", "quit")]

def modelledOps : List String := allSites.filterMap siteOp

/-- every element of every entry point's set is a model action or explicitly ignored; and no stale entry in `ignored` -/
def opsAccounted : Bool :=
  (ops.all fun (f, els) => f = "<unlisted>" || els.all fun e => modelledOps.contains e || ignored.any (·.1 = e)) &&
  (ignored.all fun (e, _) => ops.any fun (_, els) => els.contains e) &&
  (modelledOps.all fun e => ops.any fun (_, els) => els.contains e)

end Pox.HandoffSites
