import PoxModel.Model.Framing
/-! The two OpenFlow read loops of `Model/Framing.lean` with two more inputs of the real code (C02):

* the OUTCOME OF THE MESSAGE HANDLER.  `of_01.Connection.read` wraps the handler call in `try: h(self, msg) / except:
  log.exception(...); continue`; `OFConnection.read` (pox/datapaths/switch.py) wraps `self.on_message_received(self,
  msg_obj)` in `try / except Exception as e: r = self._error_handler(self.ERR_EXCEPTION, info); if r is False: break;
  continue` — and `_error_handler(ERR_EXCEPTION)` only logs (returns None).  In both the message's bytes were consumed
  BEFORE the handler ran (`offset = new_offset` / `io_worker.consume_receive_buf(message_length)`), so a handler that
  raises costs nothing but a log line: `ctlLoopH` / `swLoopH` take the outcome `H m` as a parameter and have a separate
  branch for it, as the code has.
* the END OF THE STREAM.  `Connection.read`: `d = self.sock.recv(2048)` raising or returning `b''` → `return False`
  (the task closes the connection); `IOWorker._do_recv`: `len(data) == 0` or `socket.error` → `self.close()`.  Both do
  ONE `recv` per call, so everything `recv` handed out earlier has already been through the loop: `connEnd` only
  changes the status.

Core only, structural recursion on `fuel`. -/
namespace Pox.Framing

/-- what the handler of a delivered message did -/
inductive HOut | returned | raised
  deriving DecidableEq, Repr

/-- `of_01.Connection.read` with the handler outcome as an input -/
def ctlLoopH {Msg} (U : Unpack Msg) (H : Msg → HOut) (minLen : Nat) : Nat → Bytes → Nat → List Msg → Nat × List Msg × Status
  | 0, _, off, acc => (off, acc, .alive)
  | fuel+1, buf, off, acc =>
    if buf.length - off < 8 then (off, acc, .alive) else
    let ty := byteAt buf (off+1)
    if byteAt buf off ≠ 1 ∧ ty ≠ 0 then (off, acc, .closed) else
    let n := declLen buf off
    if n < minLen then (off, acc, .closed) else
    if buf.length - off < n then (off, acc, .alive) else
    match U ty buf off with
    | .raise => (off, acc, .dead)
    | .none => (off, acc, .dead)
    | .ok (off', m) =>
      if off' - off ≠ n ∨ off' < off then (off, acc, .dead)
      else match H m with                                                -- offset = new_offset; try: h(self, msg)
        | .returned => ctlLoopH U H minLen fuel buf off' (acc ++ [m])
        | .raised => ctlLoopH U H minLen fuel buf off' (acc ++ [m])      -- except: log.exception(...); continue

def ctlFeedH {Msg} (U : Unpack Msg) (H : Msg → HOut) (minLen : Nat) (s : CS Msg) (chunk : Bytes) : CS Msg :=
  match s.st with
  | .alive =>
    let buf := s.buf ++ chunk
    let (off, d, st) := ctlLoopH U H minLen (buf.length + 1) buf 0 s.delivered
    { buf := buf.drop off, delivered := d, st := st }
  | _ => s

/-- `OFConnection.read` with the handler outcome as an input -/
def swLoopH {Msg} (U : Unpack Msg) (H : Msg → HOut) : Nat → Bytes → List Msg → Bytes × List Msg × Status
  | 0, buf, acc => (buf, acc, .alive)
  | fuel+1, buf, acc =>
    if buf.length < 4 then (buf, acc, .alive) else
    if byteAt buf 0 ≠ 1 then (buf, acc, .closed) else
    let n := declLen buf 0
    if n < 8 then (buf, acc, .closed) else
    if n > buf.length then (buf, acc, .alive) else
    match U (byteAt buf 1) buf 0 with
    | .none => swLoopH U H fuel (buf.drop n) acc
    | .raise => swLoopH U H fuel (buf.drop n) acc
    | .ok (off', m) =>
      if off' ≠ n then swLoopH U H fuel (buf.drop n) acc
      else match H m with                                                -- consume_receive_buf(n); try: on_message_received
        | .returned => swLoopH U H fuel (buf.drop n) (acc ++ [m])
        | .raised => swLoopH U H fuel (buf.drop n) (acc ++ [m])          -- _error_handler(ERR_EXCEPTION) logs; continue

def swFeedH {Msg} (U : Unpack Msg) (H : Msg → HOut) (s : CS Msg) (chunk : Bytes) : CS Msg :=
  match s.st with
  | .alive =>
    let buf := s.buf ++ chunk
    let (b, d, st) := swLoopH U H (buf.length + 1) buf s.delivered
    { buf := b, delivered := d, st := st }
  | _ => s

/-- the read that finds the end of the stream (`recv` returns `b''` or raises): nothing is appended, nothing is
    dispatched, the connection is thrown away -/
def connEnd {Msg} (s : CS Msg) : CS Msg :=
  match s.st with
  | .alive => { s with st := .closed }
  | _ => s

/-- the handler outcome used by the correspondence driver: the handlers of the listed messages raise -/
def raisesOn (l : List Bytes) (m : Bytes) : HOut := if l.contains m then .raised else .returned

/-! ## Configurations that change the decode path

`openflow.nicira` (a supported, non-default component) replaces ONE entry of the table of unpackers every
controller-side connection uses (`nicira._init_unpacker`: `unpackers[OFPT_VENDOR] = _unpack_nx_vendor`); the new entry
looks at fields of the message before it decides which decoder gets it. -/

/-- entry `ty0` of a table of unpackers replaced by `V` -/
def replaceEntry {Msg} (U : Unpack Msg) (ty0 : Nat) (V : Unpack Msg) : Unpack Msg :=
  fun ty buf off => if ty = ty0 then V ty buf off else U ty buf off

def be32 (b : Bytes) (i : Nat) : Nat :=
  ((byteAt b i * 256 + byteAt b (i+1)) * 256 + byteAt b (i+2)) * 256 + byteAt b (i+3)

def nxVendorId : Nat := 0x2320

/-- `nicira._unpack_nx_vendor (raw, offset)`: `_unpack("!L", raw, offset+8)` — raises when the buffer ends before
    offset+12 —, another vendor's message goes to the old entry; `_unpack("!L", raw, offset+12)` — raises when the buffer
    ends before offset+16 —, the decoder `N subtype` of that Nicira subtype gets it, the old entry when there is none. -/
def nxVendor {Msg} (old : Unpack Msg) (N : Nat → Option (Unpack Msg)) : Unpack Msg := fun ty buf off =>
  if buf.length < off + 12 then .raise else
  if be32 buf (off+8) ≠ nxVendorId then old ty buf off else
  if buf.length < off + 16 then .raise else
  match N (be32 buf (off+12)) with
  | some d => d ty buf off
  | none => old ty buf off

/-- the same entry reading vendor id and subtype in ONE access of 8 bytes (what the code must NOT do: a 12-byte message
    of another vendor has no subtype field, the access reaches into whatever follows it in the buffer) -/
def nxVendorEager {Msg} (old : Unpack Msg) (N : Nat → Option (Unpack Msg)) : Unpack Msg := fun ty buf off =>
  if buf.length < off + 16 then .raise else
  if be32 buf (off+8) ≠ nxVendorId then old ty buf off else
  match N (be32 buf (off+12)) with
  | some d => d ty buf off
  | none => old ty buf off

end Pox.Framing
