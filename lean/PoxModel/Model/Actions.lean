import PoxModel.Model.PacketHdr
/-!
# Data path of `SoftwareSwitchBase` (C12): actions, output expansion, port rules, counters.  Core only.

Mirrors `pox/datapaths/switch.py` **after the proposed repairs** D7 (`_action_enqueue` reads `action.port`),
D8 (`output:TABLE` goes to `_lookup_packet`, the table-lookup half of `rx_packet`, instead of re-entering `rx_packet`),
C12-2 (`strip_vlan` leaves a tag that did not parse alone), C12-6 (`set_nw_tos` replaces the six DSCP bits and keeps the ECN bits) and C12-1 (`set_vlan_vid` / `set_vlan_pcp` reduce their argument to the 12 / 3 bits of the tag field).  The behaviour of
the unrepaired lines is kept as `Variant` switches (used only by the `…_defect` witnesses and by the harness when it
replays a defect): see `Variant` below.

| model                              | Python (line numbers of the repaired tree, fixes/D7,D8,C12-1 applied)              |
|------------------------------------|--------------------------------------------------------------------------------------|
| `handle1`                          | `_action_set_vlan_vid` … `_action_set_tp_dst` (switch.py:858-925), the rewrite part  |
| `realSend`                         | `_output_packet.real_send` (:649-670)                                                |
| `outputPacket`                     | `_output_packet` (:637-696)                                                          |
| `applyWith` / `run`                | `_process_actions_for_packet` (:736-756) + `_action_output` / `_action_enqueue`      |
| `lookupPacket`                     | `_lookup_packet` (:517-540; in the unrepaired tree the tail of `rx_packet`, :515-529)|
| `rxWire`                           | `rx_packet` (:470-515)                                                               |
| `portMod`, `setBitStep`            | `_rx_port_mod` (:362-391), `_set_port_config_bit` (:579-625), `ofp_phy_port.set_config`|
| `packetOut`                        | `_rx_packet_out` with `data` (:312-320) → `ethernet.unpack(data)`                    |

The packet is the C14 chain type (`Pox.Packet.Pkt`); the frame handed to the handlers is always an `ethernet` object
that parsed (`Frame` = its attributes + its `next`).  Frames shorter than 14 bytes (an `ethernet` object with
`parsed = False`) are outside the model: the driver refuses them.  `packet.pack()` is `Packet.pack none (.eth …)`;
the attribute updates `hdr` makes (`iplen`, `csum`, `len`, `off`) are dropped, because no handler and no `hdr` reads them
(C14 `ipv4Hdr_idem`, `udpHdr_idem`, `tcpHdr_idem`, `icmpHdr_idem`).

The packet-buffer pool is reduced to the number of free buffers (`Sw.bufFree`, `settle`; ids and release are C18).
Not modelled: flow-table lookup is reduced
to rules that match on the ingress port or on everything (matching itself is C03); flow/table counters.
-/
namespace Pox.Actions
open Pox Pox.Packet

/-! ## constants (libopenflow_01.py:411-417, 422, 461-464, 486-487, 503-511) -/

def PC_PORT_DOWN : Nat := 1
def PC_NO_STP : Nat := 2
def PC_NO_RECV : Nat := 4
def PC_NO_RECV_STP : Nat := 8
def PC_NO_FLOOD : Nat := 16
def PC_NO_FWD : Nat := 32
def PC_NO_PACKET_IN : Nat := 64
def PS_LINK_DOWN : Nat := 1
def P_MAX : Nat := 0xff00
def P_IN_PORT : Nat := 0xfff8
def P_TABLE : Nat := 0xfff9
def P_FLOOD : Nat := 0xfffb
def P_ALL : Nat := 0xfffc
def P_CONTROLLER : Nat := 0xfffd
def R_NO_MATCH : Nat := 0
def R_ACTION : Nat := 1
def stpMac : Bytes := [0x01, 0x80, 0xc2, 0x00, 0x00, 0x00]

/-- `x & bit` is non-zero -/
def has (x bit : Nat) : Bool := x &&& bit != 0

/-! ## actions -/

inductive Action where
  | output (port : Nat) (maxLen : Nat)
  | setVlanVid (vid : Nat)
  | setVlanPcp (pcp : Nat)
  | stripVlan
  | setDlSrc (a : Bytes)
  | setDlDst (a : Bytes)
  | setNwSrc (a : Nat)
  | setNwDst (a : Nat)
  | setNwTos (t : Nat)
  | setTpSrc (p : Nat)
  | setTpDst (p : Nat)
  | enqueue (port : Nat) (queue : Nat)
  /-- an action type with no handler (`OFPAT_VENDOR`): processing stops with a BAD_ACTION/BAD_TYPE error -/
  | vendor (v : Nat)
  deriving DecidableEq, Repr

inductive Err where
  | pack (e : Packet.Err)       -- `packet.pack()` raised
  | typeError                   -- `set_payload(None)`
  | attributeError              -- only with `Variant.d7` (the unrepaired `_action_enqueue`)
  | recursion                   -- `output:TABLE` re-entered deeper than the fuel (Python: RecursionError)
  deriving DecidableEq, Repr

def Err.toString : Err → String
  | .pack e => e.toString
  | .typeError => "TypeError"
  | .attributeError => "AttributeError"
  | .recursion => "RecursionError"

abbrev M := Except Err

/-- which unrepaired lines to follow (all `false` = the repaired tree) -/
structure Variant where
  d7 : Bool := false      -- `_action_enqueue` reads `action.tp_port`
  d8 : Bool := false      -- `output:TABLE` calls `rx_packet` (receive checks and counters again)
  c121 : Bool := false    -- VLAN actions store the argument unreduced
  c122 : Bool := false    -- `strip_vlan` also "strips" a `vlan` object that did not parse (`set_payload(None)` raises)
  c126 : Bool := false    -- `set_nw_tos` stores all 8 bits of the argument (the ECN bits of the packet are overwritten)
  c134 : Bool := false    -- a flow_mod whose actions include a type without handler is installed silently (no pre-check)
  deriving DecidableEq, Repr

/-- a parsed `ethernet` object: its attributes and its `next` -/
structure Frame where
  eth : Eth
  pay : Pkt
  deriving Repr

def Frame.pkt (f : Frame) : Pkt := .eth f.eth f.pay

/-! ## header rewrites (`_action_*`, the part that changes the packet) -/

/-- `isinstance(x, vlan)`: a parsed tag, a tag pushed by an earlier action, or a `vlan` object whose parse gave up -/
def isVlanObj : Pkt → Bool
  | .vlan _ _ => true
  | .unparsed c _ => c == "vlan"
  | _ => false

/-- switch.py:859-865 / 869-874: `vl = vlan(); vl.eth_type = packet.type; vl.payload = packet.payload;
packet.type = VLAN_TYPE; packet.payload = vl` (`set_payload(None)` raises `TypeError`) -/
def pushVlan (f : Frame) : M Frame :=
  match f.pay with
  | .nil => .error .typeError
  | n => .ok { eth := { f.eth with type := 0x8100 }, pay := .vlan ⟨0, 0, 0, f.eth.type⟩ n }

/-- `packet.payload.<field> = value` on whatever `vlan` object is there (invisible on an unparsed one: its `pack()`
returns `raw`) -/
def updVlan (g : Vlan → Vlan) (f : Frame) : Frame :=
  match f.pay with
  | .vlan v n => { f with pay := .vlan (g v) n }
  | _ => f

def setVlanField (g : Vlan → Vlan) (f : Frame) : M Frame := do
  let f' ← if isVlanObj f.pay then pure f else pushVlan f
  pure (updVlan g f')

/-- `_action_strip_vlan`: `if isinstance(packet.payload, vlan) and packet.payload.payload is not None:
packet.type = packet.payload.eth_type; packet.payload = packet.payload.payload` (repair C12-2: a tag too short to have been
parsed — a `vlan` object with `next = None` — is left alone; without the repair `set_payload(None)` raises `TypeError`) -/
def stripVlan (var : Variant) (f : Frame) : M Frame :=
  match f.pay with
  | .vlan _ .nil => if var.c122 then .error .typeError else .ok f
  | .vlan v n => .ok { eth := { f.eth with type := v.ethType }, pay := n }
  | .unparsed c _ => if c == "vlan" && var.c122 then .error .typeError else .ok f
  | _ => .ok f

/-- `nw = packet.payload; if isinstance(nw, vlan): nw = nw.payload; if isinstance(nw, ipv4): …` -/
def updIp (g : IPv4 → Pkt → Pkt) : Pkt → Pkt
  | .vlan v (.ipv4 h n) => .vlan v (g h n)
  | .ipv4 h n => g h n
  | p => p

/-- `tp = nw.payload; if isinstance(tp, udp) or isinstance(tp, tcp): tp.<port> = …` -/
def updTp (gu : Udp → Udp) (gt : Tcp → Tcp) : Pkt → Pkt
  | .udp u n => .udp (gu u) n
  | .tcp t n => .tcp (gt t) n
  | p => p

def vidOf (var : Variant) (vid : Nat) : Nat := if var.c121 then vid else vid % 4096
def pcpOf (var : Variant) (pcp : Nat) : Nat := if var.c121 then pcp else pcp % 8

/-- the packet after one action's handler (outputs leave it unchanged) -/
def handle1 (var : Variant) (a : Action) (f : Frame) : M Frame :=
  match a with
  | .setVlanVid vid => setVlanField (fun v => { v with id := vidOf var vid }) f
  | .setVlanPcp pcp => setVlanField (fun v => { v with pcp := pcpOf var pcp }) f
  | .stripVlan => stripVlan var f
  | .setDlSrc a => .ok { f with eth := { f.eth with src := a } }
  | .setDlDst a => .ok { f with eth := { f.eth with dst := a } }
  | .setNwSrc a => .ok { f with pay := updIp (fun h n => .ipv4 { h with src := a } n) f.pay }
  | .setNwDst a => .ok { f with pay := updIp (fun h n => .ipv4 { h with dst := a } n) f.pay }
  -- repair C12-6: `nw.tos = (nw.tos & 0x03) | (action.nw_tos & 0xfc)` (disjoint bits: `|` is `+`; `x & 3` is `x % 4`,
  -- `t & 0xfc` of the 8-bit wire value is `t % 256 / 4 * 4`); unrepaired: `nw.tos = action.nw_tos`
  | .setNwTos t => .ok { f with pay := updIp (fun h n => .ipv4 { h with tos := if var.c126 then t else h.tos % 4 + t % 256 / 4 * 4 } n) f.pay }
  | .setTpSrc p => .ok { f with pay := updIp (fun h n => .ipv4 h (updTp (fun u => { u with sport := p })
                                                                        (fun t => { t with sport := p }) n)) f.pay }
  | .setTpDst p => .ok { f with pay := updIp (fun h n => .ipv4 h (updTp (fun u => { u with dport := p })
                                                                        (fun t => { t with dport := p }) n)) f.pay }
  | _ => .ok f

/-! ## switch state -/

structure Port where
  no : Nat
  hw : Bytes
  config : Nat
  state : Nat
  deriving DecidableEq, Repr

/-- an `ofp_port_stats` entry of `self.port_stats` -/
structure Stat where
  no : Nat
  rxP : Nat := 0
  rxB : Nat := 0
  txP : Nat := 0
  txB : Nat := 0
  deriving DecidableEq, Repr

/-- a flow entry reduced to what C12 needs: matches one ingress port or everything -/
structure Rule where
  inPort : Option Nat
  acts : List Action
  deriving DecidableEq, Repr

structure Sw where
  /-- `self.ports` in dict (insertion) order; port numbers are distinct -/
  ports : List Port
  /-- `self.port_stats`: one entry per port ever added (`add_port`, switch.py:564-565), never removed -/
  stats : List Stat
  /-- `config_flags` -/
  flags : Nat := 0
  missLen : Nat := 128
  /-- flow table, highest priority first -/
  table : List Rule := []
  /-- packet buffers still free: `max_buffers - len(_packet_buffer)` (C12's operations never release one; the pool
  itself is C18's subject) -/
  bufFree : Nat := 4096
  deriving DecidableEq, Repr

inductive Out where
  /-- `DpPacketOut(port, packet)`, the packet serialised at event time -/
  | frame (port : Nat) (data : Bytes)
  /-- `ofp_packet_in`: `data` is the whole serialised packet (`total_len` = its length), `dataLength` the `max_len` /
  `miss_send_len` that applies, `buffered` whether `_buffer_packet` found room (a buffer id is sent and the data is cut to
  `dataLength`) — see `pinData` -/
  | packetIn (inPort reason : Nat) (data : Bytes) (dataLength : Option Nat) (buffered : Bool)
  /-- `ofp_error(type, code)` -/
  | error (type code : Nat)
  | portStatus (port : Nat) (config state : Nat)
  deriving DecidableEq, Repr

def findPort (ps : List Port) (no : Nat) : Option Port := ps.find? (fun p => p.no == no)

def mapPort (ps : List Port) (no : Nat) (g : Port → Port) : List Port :=
  ps.map fun p => if p.no == no then g p else p

/-- `self.port_stats[no].tx_packets += 1; self.port_stats[no].tx_bytes += len` -/
def bumpTx (sw : Sw) (no len : Nat) : Sw :=
  { sw with stats := sw.stats.map fun s => if s.no == no then { s with txP := s.txP + 1, txB := s.txB + len } else s }

def bumpRx (sw : Sw) (no len : Nat) : Sw :=
  { sw with stats := sw.stats.map fun s => if s.no == no then { s with rxP := s.rxP + 1, rxB := s.rxB + len } else s }

def packFrame (f : Frame) : M Bytes :=
  match pack none f.pkt with
  | .ok b => .ok b
  | .error e => .error (.pack e)

/-- `send_packet_in` (switch.py:418-438) as requested by the data path; whether a buffer is available is settled by
`settle` at the end of the operation -/
def packetInOf (inPort reason : Nat) (data : Bytes) (dataLength : Option Nat) : Out :=
  .packetIn inPort reason data dataLength true

/-- the `data` field of the packet-in on the wire: `if data_length is not None and len(packet) > data_length:
if buffer_id is not None: packet = packet[:data_length]` -/
def pinData (data : Bytes) (dataLength : Option Nat) (buffered : Bool) : Bytes :=
  match dataLength with
  | some n => if buffered && data.length > n then data.take n else data
  | none => data

/-! ## `_output_packet` -/

/-- `real_send(port_no, allow_in_port)` (switch.py:649-670).  The counters move only after every guard passed. -/
def realSend (sw : Sw) (f : Frame) (portNo inPort : Nat) (allowInPort : Bool) : M (Sw × List Out) :=
  if portNo == inPort && !allowInPort then .ok (sw, [])
  else match findPort sw.ports portNo with
    | none => .ok (sw, [])
    | some p =>
      if has p.config PC_NO_FWD then .ok (sw, [])
      else if has p.config PC_PORT_DOWN then .ok (sw, [])
      else if has p.state PS_LINK_DOWN then .ok (sw, [])
      else do
        let b ← packFrame f
        pure (bumpTx sw portNo b.length, [.frame portNo b])

/-- the `for no,port in self.ports.items(): … real_send(port)` loops -/
def sendMany (sw : Sw) (f : Frame) (inPort : Nat) : List Nat → M (Sw × List Out)
  | [] => .ok (sw, [])
  | no :: rest => do
    let (sw1, o1) ← realSend sw f no inPort false
    let (sw2, o2) ← sendMany sw1 f inPort rest
    pure (sw2, o1 ++ o2)

/-- ports visited by FLOOD (`flood = true`: skips NO_FLOOD ports) / ALL, before `real_send`'s own guards -/
def loopPorts (sw : Sw) (inPort : Nat) (flood : Bool) : List Nat :=
  (sw.ports.filter fun p => !(p.no == inPort) && !(flood && has p.config PC_NO_FLOOD)).map (·.no)

/-- what handles a packet sent to `OFPP_TABLE` (passed in so that every definition here is structurally recursive).
It also returns the packet: the flow entry's handlers work on the *same* `ethernet` object, so their rewrites are seen
by the actions that follow the `output:TABLE` (as with Open vSwitch's resubmit). -/
abbrev TableK := Sw → Frame → Nat → M (Sw × Frame × List Out)

/-- an output that leaves the packet as it is -/
def keep (f : Frame) (r : M (Sw × List Out)) : M (Sw × Frame × List Out) :=
  match r with
  | .ok (sw, o) => .ok (sw, f, o)
  | .error e => .error e

/-- `_output_packet(packet, out_port, in_port, max_len)` (switch.py:637-696) -/
def outputPacket (table : TableK) (sw : Sw) (f : Frame) (outPort inPort : Nat) (maxLen : Option Nat) :
    M (Sw × Frame × List Out) :=
  if outPort < P_MAX then keep f (realSend sw f outPort inPort false)
  else if outPort = P_IN_PORT then keep f (realSend sw f inPort inPort true)
  else if outPort = P_FLOOD then keep f (sendMany sw f inPort (loopPorts sw inPort true))
  else if outPort = P_ALL then keep f (sendMany sw f inPort (loopPorts sw inPort false))
  else if outPort = P_CONTROLLER then
    match packFrame f with
    | .ok b => .ok (sw, f, [packetInOf inPort R_ACTION b maxLen])
    | .error e => .error e
  else if outPort = P_TABLE then table sw f inPort
  else .ok (sw, f, [])

/-! ## `_process_actions_for_packet` -/

/-- the action loop (switch.py:747-756); `ofp`-less `send_error` is the `Out.error 2 0` (BAD_ACTION / BAD_TYPE).
Returns the packet as the handlers left it. -/
def applyWith (var : Variant) (table : TableK) : Sw → List Action → Frame → Nat → M (Sw × Frame × List Out)
  | sw, [], f, _ => .ok (sw, f, [])
  | sw, a :: rest, f, inPort =>
    match a with
    | .vendor _ => .ok (sw, f, [.error 2 0])
    | .output port maxLen => do
      let (sw1, f1, o1) ← outputPacket table sw f port inPort (some maxLen)
      let (sw2, f2, o2) ← applyWith var table sw1 rest f1 inPort
      pure (sw2, f2, o1 ++ o2)
    | .enqueue port _ =>
      if var.d7 then .error .attributeError else do
      let (sw1, f1, o1) ← outputPacket table sw f port inPort none
      let (sw2, f2, o2) ← applyWith var table sw1 rest f1 inPort
      pure (sw2, f2, o1 ++ o2)
    | a => do
      let f' ← handle1 var a f
      applyWith var table sw rest f' inPort

def lookup (t : List Rule) (inPort : Nat) : Option (List Action) :=
  (t.find? fun r => match r.inPort with | none => true | some p => p == inPort).map (·.acts)

/-- `port is not None and port.config & OFPPC_NO_PACKET_IN` -/
def noPin (sw : Sw) (inPort : Nat) : Bool :=
  match findPort sw.ports inPort with
  | some p => has p.config PC_NO_PACKET_IN
  | none => false

/-- the table-miss branch of `_lookup_packet` (switch.py:531-540) -/
def missOuts (sw : Sw) (f : Frame) (inPort : Nat) (packetData : Option Bytes) : M (List Out) :=
  if noPin sw inPort then .ok [] else
  match packetData with
  | some d => .ok [packetInOf inPort R_NO_MATCH d (some sw.missLen)]
  | none =>
    match packFrame f with
    | .ok d => .ok [packetInOf inPort R_NO_MATCH d (some sw.missLen)]
    | .error e => .error e

/-- `_lookup_packet(packet, in_port, packet_data)` (switch.py:517-540): `apply` is the action loop one level down -/
def lookupPacket (apply : Sw → List Action → Frame → Nat → M (Sw × Frame × List Out)) (sw : Sw) (f : Frame)
    (inPort : Nat) (packetData : Option Bytes) : M (Sw × Frame × List Out) :=
  match lookup sw.table inPort with
  | some acts => apply sw acts f inPort
  | none =>
    match missOuts sw f inPort packetData with
    | .ok o => .ok (sw, f, o)
    | .error e => .error e

/-- `packet.find(ipv4)` from the `ethernet` object (packet_base.py:141-154): through parsed tags to a parsed `ipv4` -/
def findIpv4 : Pkt → Option IPv4
  | .vlan _ n => findIpv4 n
  | .ipv4 h _ => some h
  | _ => none

/-- the receive checks of `rx_packet` (switch.py:480-507): `true` = the frame is accepted -/
def rxAccepts (sw : Sw) (p : Port) (f : Frame) : Bool :=
  let isStp := f.eth.dst == stpMac
  if has p.config PC_NO_RECV && !isStp then false
  else if has p.config PC_NO_RECV_STP && isStp then false
  else if sw.flags &&& 3 != 0 then
    match findIpv4 f.pay with
    | some ip => if (ip.flags &&& 1 != 0 || ip.frag != 0) && sw.flags &&& 3 == 1 then false else true
    | none => true
  else true

/-- the receive half of `rx_packet` followed by `k` (the lookup half); with `Variant.d8` this is also what
`output:TABLE` runs (no wire bytes then: `rx_bytes += len(packet.pack())`) -/
def rxThen (k : Sw → Frame → Nat → Option Bytes → M (Sw × Frame × List Out)) (sw : Sw) (f : Frame) (inPort : Nat)
    (packetData : Option Bytes) : M (Sw × Frame × List Out) :=
  match findPort sw.ports inPort with
  | none => .ok (sw, f, [])
  | some p =>
    if !rxAccepts sw p f then .ok (sw, f, []) else
    match packetData with
    | some d => k (bumpRx sw inPort d.length) f inPort packetData
    | none =>
      match packFrame f with
      | .ok b => k (bumpRx sw inPort b.length) f inPort packetData
      | .error e => .error e

/-- the action loop with `output:TABLE` allowed to nest `fuel` deep (a flow entry that itself outputs to TABLE makes
the Python recurse until `RecursionError`; the harness never installs one) -/
def run (var : Variant) : Nat → Sw → List Action → Frame → Nat → M (Sw × Frame × List Out)
  | 0 => fun _ _ _ _ => .error .recursion
  | fuel + 1 => applyWith var fun sw f inPort =>
      if var.d8 then rxThen (fun sw f inPort pd => lookupPacket (run var fuel) sw f inPort pd) sw f inPort none
      else lookupPacket (run var fuel) sw f inPort none

/-- default nesting allowance used by the top-level operations -/
def depth : Nat := 8

def dropFrame (r : M (Sw × Frame × List Out)) : M (Sw × List Out) :=
  match r with
  | .ok (sw, _, o) => .ok (sw, o)
  | .error e => .error e

/-- `_buffer_packet` (switch.py:702-719) for the packet-ins of one operation, in order: each takes a buffer while one is
free (`buffered = true`: buffer id sent, data cut), afterwards none (`buffer_id = None`, whole packet sent).  Nothing in
the data path reads the pool, so the outcome only shapes the packet-in being built and can be settled when the operation
has run. -/
def settle : Nat → List Out → Nat × List Out
  | free, [] => (free, [])
  | free, .packetIn p r d dl _ :: rest => ((settle (free - 1) rest).1, .packetIn p r d dl (decide (0 < free)) :: (settle (free - 1) rest).2)
  | free, o :: rest => ((settle free rest).1, o :: (settle free rest).2)

def finish (free : Nat) (r : M (Sw × List Out)) : M (Sw × List Out) :=
  match r with
  | .ok (sw, o) => .ok ({ sw with bufFree := (settle free o).1 }, (settle free o).2)
  | .error e => .error e

/-- `rx_packet(packet, in_port, packet_data)` for a frame from the wire, buffers not yet settled -/
def rxWireCore (var : Variant) (sw : Sw) (f : Frame) (inPort : Nat) (wire : Bytes) : M (Sw × List Out) :=
  dropFrame (rxThen (fun sw f inPort pd => lookupPacket (run var depth) sw f inPort pd) sw f inPort (some wire))

/-- `rx_packet(packet, in_port, packet_data)` for a frame from the wire -/
def rxWire (var : Variant) (sw : Sw) (f : Frame) (inPort : Nat) (wire : Bytes) : M (Sw × List Out) :=
  finish sw.bufFree (rxWireCore var sw f inPort wire)

/-- `rx_packet(packet, in_port)` called with a packet object only (no `packet_data`): the receive byte counter and a
table-miss packet-in then use `packet.pack()` (switch.py:512-513, 537-538) -/
def rxObjCore (var : Variant) (sw : Sw) (f : Frame) (inPort : Nat) : M (Sw × List Out) :=
  dropFrame (rxThen (fun sw f inPort pd => lookupPacket (run var depth) sw f inPort pd) sw f inPort none)

def rxObj (var : Variant) (sw : Sw) (f : Frame) (inPort : Nat) : M (Sw × List Out) :=
  finish sw.bufFree (rxObjCore var sw f inPort)

/-- `_rx_packet_out` with `data`: `_process_actions_for_packet(actions, ethernet.unpack(data), in_port)` -/
def packetOutCore (var : Variant) (sw : Sw) (acts : List Action) (f : Frame) (inPort : Nat) : M (Sw × List Out) :=
  dropFrame (run var (depth + 1) sw acts f inPort)

def packetOut (var : Variant) (sw : Sw) (acts : List Action) (f : Frame) (inPort : Nat) : M (Sw × List Out) :=
  finish sw.bufFree (packetOutCore var sw acts f inPort)

/-! ## port-mod -/

/-- `x & ~bit` on Python's unbounded ints -/
def clearBits (x bit : Nat) : Nat := x ^^^ (x &&& bit)

/-- `_set_port_config_bit(port, bit, value)` (switch.py:579-625) with `ofp_phy_port.set_config` inlined;
the flag says whether a port-status message is sent -/
def setBitStep (p : Port) (bit value : Nat) : Port × Bool :=
  if bit = PC_NO_STP then (p, false)
  else if !(bit = PC_PORT_DOWN || bit = PC_NO_RECV || bit = PC_NO_RECV_STP || bit = PC_NO_FLOOD || bit = PC_NO_FWD
            || bit = PC_NO_PACKET_IN) then (p, false)
  else
    let c' := clearBits p.config bit ||| value
    if p.config ^^^ c' != 0 then
      if bit = PC_PORT_DOWN then
        let st0 := clearBits p.state PS_LINK_DOWN
        let st' := if has c' PC_PORT_DOWN then st0 ||| PS_LINK_DOWN else st0
        ({ p with config := c', state := st' }, (p.state &&& PS_LINK_DOWN) != (st' &&& PS_LINK_DOWN))
      else ({ p with config := c' }, false)
    else (p, false)

/-- the `for bit in range(32)` loop of `_rx_port_mod` over the given bit positions -/
def portModBits (config mask : Nat) : List Nat → Port → Port × List Out
  | [], p => (p, [])
  | i :: rest, p =>
    let bit := 2 ^ i
    if has mask bit then
      let (p1, st) := setBitStep p bit (config &&& bit)
      let (p2, o) := portModBits config mask rest p1
      (p2, (if st then [Out.portStatus p1.no p1.config p1.state] else []) ++ o)
    else portModBits config mask rest p

/-- `_rx_port_mod` (switch.py:362-391): PORT_MOD_FAILED (type 4) / BAD_PORT (0), BAD_HW_ADDR (1) -/
def portMod (sw : Sw) (portNo : Nat) (hw : Bytes) (config mask : Nat) : Sw × List Out :=
  match findPort sw.ports portNo with
  | none => (sw, [.error 4 0])
  | some p =>
    if p.hw != hw then (sw, [.error 4 1])
    else
      let (p', o) := portModBits config mask (List.range 32) p
      ({ sw with ports := mapPort sw.ports portNo fun _ => p' }, o)

/-! ## histories -/

inductive Op where
  | portMod (port : Nat) (hw : Bytes) (config mask : Nat)
  | setConfig (flags missLen : Nat)
  /-- append a flow entry (the harness installs entries with strictly decreasing priority) -/
  | flowAdd (r : Rule)
  | packetOut (acts : List Action) (f : Frame) (inPort : Nat)
  | rx (f : Frame) (inPort : Nat) (wire : Bytes)
  /-- a packet object handed to `rx_packet` without its wire bytes -/
  | rxObj (f : Frame) (inPort : Nat)
  /-- the physical link of a port goes down / comes back (set on the port object by the harness) -/
  | link (port : Nat) (down : Bool)

def step (var : Variant) (sw : Sw) : Op → M (Sw × List Out)
  | .portMod no hw c m => .ok (portMod sw no hw c m)
  | .setConfig fl ml => .ok ({ sw with flags := fl, missLen := ml }, [])
  -- `_rx_flow_mod` (repair C13-4): an action type that is not in `action_handlers` is answered with
  -- OFPET_BAD_ACTION / OFPBAC_BAD_TYPE and nothing is installed; without the repair the entry is installed as it is
  | .flowAdd r =>
    if !var.c134 && r.acts.any (fun a => match a with | .vendor _ => true | _ => false) then .ok (sw, [.error 2 0])
    else .ok ({ sw with table := sw.table ++ [r] }, [])
  | .packetOut acts f inPort => packetOut var sw acts f inPort
  | .rx f inPort wire => rxWire var sw f inPort wire
  | .rxObj f inPort => rxObj var sw f inPort
  | .link no down =>
    .ok ({ sw with ports := mapPort sw.ports no fun p =>
            { p with state := if down then clearBits p.state PS_LINK_DOWN ||| PS_LINK_DOWN
                              else clearBits p.state PS_LINK_DOWN } }, [])

/-- run a history; stops at the first operation that raises -/
def runOps (var : Variant) : Sw → List Op → M (Sw × List (List Out))
  | sw, [] => .ok (sw, [])
  | sw, op :: ops => do
    let (sw1, o) ← step var sw op
    let (sw2, os) ← runOps var sw1 ops
    pure (sw2, o :: os)

end Pox.Actions
