import PoxModel.Base.Proto
import PoxModel.Model.FramingIO
open Pox Pox.Proto Pox.Framing

def stName : Status → String
  | .alive => "alive" | .closed => "closed" | .dead => "dead"

/-- request: {"side":"ctl"|"sw","chunks":[hex,...]
              [,"cfg":"default"|"nicira"   the configuration: with "nicira" the controller's OFPT_VENDOR entry is nxVendor]
              [,"raising":[hex,...]   the handlers of these messages raise]
              [,"end":true            after the last chunk the next read finds the end of the stream]}
    →  per-chunk cumulative delivered counts, final delivered, buf, status -/
def handle (j : J) : Except String J := do
  let side ← j.string "side"
  if side ≠ "ctl" ∧ side ≠ "sw" then throw s!"unknown side {side}"
  let chunks ← (← j.array "chunks").mapM J.asBytes
  let raising ← match j.get? "raising" with
    | some _ => do (← j.array "raising").mapM J.asBytes
    | none => pure []
  let fin ← match j.get? "end" with
    | some _ => j.boolean "end"
    | none => pure false
  let cfg ← match j.get? "cfg" with
    | some _ => j.string "cfg"
    | none => pure "default"
  if cfg ≠ "default" ∧ cfg ≠ "nicira" then throw s!"unknown cfg {cfg}"
  -- openflow.nicira replaces the OFPT_VENDOR entry of the controller's table; the switch-side table is built per connection
  let ctlU : Unpack Bytes := if cfg = "nicira" then replaceEntry sliceU 4 (nxVendor sliceU (fun _ => none)) else sliceU
  let feed : CS Bytes → Bytes → CS Bytes :=
    if side = "ctl" then ctlFeedH ctlU (raisesOn raising) 8 else swFeedH sliceU (raisesOn raising)
  let (final, counts) := chunks.foldl (fun (acc : CS Bytes × List Nat) c =>
      let s' := feed acc.1 c; (s', acc.2 ++ [s'.delivered.length])) (init, [])
  let final := if fin then connEnd final else final
  pure (J.mk [("delivered", J.arr (final.delivered.map J.ofBytes)), ("buf", J.ofBytes final.buf),
              ("status", J.str (stName final.st)), ("counts", J.ofNats counts)])

def main : IO Unit := serve handle
