import PoxModel.Base.Proto
import PoxModel.Model.Framing
open Pox Pox.Proto Pox.Framing

def stName : Status → String
  | .alive => "alive" | .closed => "closed" | .dead => "dead"

/-- request: {"side":"ctl"|"sw","chunks":[hex,...]}  →  per-chunk cumulative delivered counts, final delivered, buf -/
def handle (j : J) : Except String J := do
  let side ← j.string "side"
  let chunks ← (← j.array "chunks").mapM J.asBytes
  let feed : CS Bytes → Bytes → CS Bytes := if side = "ctl" then ctlFeed sliceU 8 else swFeed sliceU
  let (final, counts) := chunks.foldl (fun (acc : CS Bytes × List Nat) c =>
      let s' := feed acc.1 c; (s', acc.2 ++ [s'.delivered.length])) (init, [])
  pure (J.mk [("delivered", J.arr (final.delivered.map J.ofBytes)), ("buf", J.ofBytes final.buf),
              ("status", J.str (stName final.st)), ("counts", J.ofNats counts)])

def main : IO Unit := serve handle
