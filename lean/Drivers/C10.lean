import PoxModel.Base.Proto
import PoxModel.Model.Framing
import PoxModel.Model.LiveNet
open Pox Pox.Proto Pox.Framing

def stName : Status → String
  | .alive => "alive" | .closed => "closed" | .dead => "dead"

/-- decoder behaviour observed on the real code, keyed by the bytes from the message start to the end of the buffer -/
structure Entry where
  key : String
  res : Res Nat      -- ok n = consumed n bytes

def parseEntry (j : J) : Except String Entry := do
  let r ← j.string "r"
  let res ← if r = "ok" then pure (Res.ok (← j.nat "n")) else if r = "raise" then pure Res.raise
            else if r = "none" then pure Res.none else throw s!"bad r {r}"
  pure { key := ← j.string "k", res := res }

def tableU (t : List Entry) : Unpack Bytes := fun _ buf off =>
  let rest := buf.drop off
  match t.find? (·.key = toHex rest) with
  | some e => match e.res with
    | .ok n => .ok (off + n, rest.take n)
    | .raise => .raise
    | .none => .none
  | none => .raise

/-! live histories: request {"side":"ctl","n":k,"live":[[i,{"t":"stats","xid","type","more","body":[id…]}|{"t":"up"}|{"t":"close"}|{"t":"other"}]…]}
→ {"events":[per connection: ["raw",xid,type,more] | ["ev",type,[id…],[xid…]] | ["raised",name] …]} -/
open Pox.LiveNet in
def parseLIn (j : J) : Except String LIn := do
  match ← j.string "t" with
  | "stats" => pure (.stats ⟨← j.nat "xid", ← j.nat "type", ← j.boolean "more", ← j.nats "body"⟩)
  | "up" => pure .up
  | "close" => pure .close
  | "other" => pure .other
  | t => .error s!"unknown live input {t}"

open Pox.LiveNet Pox.StatsAgg in
def jLEv : LEv → J
  | .raw x t m => J.arr [J.str "raw", J.ofNat x, J.ofNat t, J.bool m]
  | .out (.event e) => J.arr [J.str "ev", J.ofNat e.type, J.ofNats e.stats, J.ofNats e.xids]
  | .out (.raised .indexError) => J.arr [J.str "raised", J.str "IndexError"]
  | .out (.raised .attributeError) => J.arr [J.str "raised", J.str "AttributeError"]
  | .out .quiet => J.null

open Pox.LiveNet in
def handleLive (j : J) (steps : List J) : Except String J := do
  let n ← j.nat "n"
  let hist ← steps.mapM fun s => do
    match ← s.asArr with
    | [i, x] => pure ((← i.asNat, ← parseLIn x) : Nat × LIn)
    | _ => .error "live step = [connection, input]"
  if hist.any (fun e => e.1 ≥ n) then .error "live step names a connection that does not exist"
  let r := runNet liveStep (List.replicate n LConn.init) hist
  pure (J.mk [("events", J.arr ((List.range n).map fun k => J.arr ((traceOf k r.2).map jLEv)))])

/-- request {"side","chunks":[hex…],"table":[…]} → delivered windows, residual buffer, status, per-chunk counts -/
def handle (j : J) : Except String J := do
  if let some l := j.get? "live" then return ← handleLive j (← l.asArr)
  let side ← j.string "side"
  let chunks ← (← j.array "chunks").mapM J.asBytes
  let table ← (← j.array "table").mapM parseEntry
  let U := tableU table
  let disc ← match j.get? "disc" with
    | some d => d.asArr >>= fun a => a.mapM J.asStr
    | none => pure []
  let D : Bytes → Bool := fun w => disc.contains (toHex w)
  let feed : CS Bytes → Bytes → CS Bytes := if side = "ctl" then ctlFeedD U D 8 else swFeed U
  let (final, counts) := chunks.foldl (fun (acc : CS Bytes × List Nat) c =>
      let s' := feed acc.1 c; (s', acc.2 ++ [s'.delivered.length])) (init, [])
  -- switch side: the error replies of the trace-keeping loop (theorem sw_answered_or_closed), in order
  let errs : List J := if side = "ctl" then [] else
    ((chunks.foldl (swFeedT U) initT).trace.filterMap SwEv.reply).map
      (fun r => J.arr [J.ofNat r.1, J.ofNat r.2.1, J.ofNat r.2.2.1, J.ofBytes r.2.2.2])
  pure (J.mk [("delivered", J.arr (final.delivered.map J.ofBytes)), ("buf", J.ofBytes final.buf),
              ("status", J.str (stName final.st)), ("counts", J.ofNats counts), ("errors", J.arr errs)])

def main : IO Unit := serve handle
