import PoxModel.Base.Proto
import PoxModel.Model.Framing
open Pox Pox.Proto Pox.Framing

def stName : Status → String
  | .alive => "alive" | .closed => "closed" | .dead => "dead"

/-- decoder behaviour observed on the real code, keyed by the bytes from the message start to the end of the buffer -/
structure Entry where
  key : String
  res : Res Nat      -- ok n = consumed n bytes

def parseEntry (j : J) : Except String Entry := do
  let r ← j.string "r"
  let res ← if r = "ok" then pure (Res.ok (← j.nat "n")) else if r = "raise" then pure Res.raise
            else if r = "none" then pure Res.none else throw s!"bad r {r}"
  pure { key := ← j.string "k", res := res }

def tableU (t : List Entry) : Unpack Bytes := fun _ buf off =>
  let rest := buf.drop off
  match t.find? (·.key = toHex rest) with
  | some e => match e.res with
    | .ok n => .ok (off + n, rest.take n)
    | .raise => .raise
    | .none => .none
  | none => .raise

/-- request {"side","chunks":[hex…],"table":[…]} → delivered windows, residual buffer, status, per-chunk counts -/
def handle (j : J) : Except String J := do
  let side ← j.string "side"
  let chunks ← (← j.array "chunks").mapM J.asBytes
  let table ← (← j.array "table").mapM parseEntry
  let U := tableU table
  let disc ← match j.get? "disc" with
    | some d => d.asArr >>= fun a => a.mapM J.asStr
    | none => pure []
  let D : Bytes → Bool := fun w => disc.contains (toHex w)
  let feed : CS Bytes → Bytes → CS Bytes := if side = "ctl" then ctlFeedD U D 8 else swFeed U
  let (final, counts) := chunks.foldl (fun (acc : CS Bytes × List Nat) c =>
      let s' := feed acc.1 c; (s', acc.2 ++ [s'.delivered.length])) (init, [])
  -- switch side: the error replies of the trace-keeping loop (theorem sw_answered_or_closed), in order
  let errs : List J := if side = "ctl" then [] else
    ((chunks.foldl (swFeedT U) initT).trace.filterMap SwEv.reply).map
      (fun r => J.arr [J.ofNat r.1, J.ofNat r.2.1, J.ofNat r.2.2.1, J.ofBytes r.2.2.2])
  pure (J.mk [("delivered", J.arr (final.delivered.map J.ofBytes)), ("buf", J.ofBytes final.buf),
              ("status", J.str (stName final.st)), ("counts", J.ofNats counts), ("errors", J.arr errs)])

def main : IO Unit := serve handle
