import PoxModel.Base.Proto
import PoxModel.Model.SwitchReq
open Pox Pox.Proto Pox.SwitchReq

def parsePort (j : J) : Except String Port := do
  match (← j.asNats) with
  | [n, hw, c, st] => pure { no := n, hw := hw, config := c, state := st }
  | _ => throw "port: [no,hw,config,state] expected"

def parseAct (j : J) : Except String Act := do
  match (← j.asNats) with
  | [t, p, l] => pure { ty := t, port := p, len := l }
  | _ => throw "act: [type,port,len] expected"

def parseCtr (j : J) : Except String PortCtr := do
  match (← j.asNats) with
  | [n, rp, tp, rb, tb] => pure { no := n, rxPackets := rp, txPackets := tp, rxBytes := rb, txBytes := tb }
  | _ => throw "port counters: [no,rx_packets,tx_packets,rx_bytes,tx_bytes] expected"

def parsePair (j : J) : Except String (Nat × Nat) := do
  match (← j.asNats) with
  | [a, b] => pure (a, b)
  | _ => throw "pair expected"

def parseActs (j : J) (k : String) : Except String (List Act) := do (← j.array k).mapM parseAct

def parseState (j : J) : Except String SwitchState := do
  pure { dpid := ← j.nat "dpid", maxBuffers := ← j.nat "max_buffers", maxEntries := ← j.nat "max_entries",
         caps := ← j.nat "caps", actionBits := ← j.nat "actions", missSendLen := ← j.nat "miss",
         configFlags := ← j.nat "flags", hasSentHello := false,
         ports := ← (← j.array "ports").mapM parsePort, portStats := ← (← j.array "port_stats").mapM parseCtr,
         table := [], lookupCount := 0, matchedCount := 0, buffers := [] }

def parseStats (j : J) : Except String StatsReq := do
  let st ← j.string "st"
  if st = "desc" then pure .desc
  else if st = "table" then pure .table
  else if st = "flow" then pure (.flow (← j.optNat "mkey") (← j.nat "table_id") (← j.nat "out_port"))
  else if st = "aggregate" then pure (.aggregate (← j.optNat "mkey") (← j.nat "table_id") (← j.nat "out_port"))
  else if st = "port" then pure (.port (← j.nat "port"))
  else if st = "queue" then pure (.queue (← j.nat "port") (← j.nat "queue"))
  else if st = "other" then pure (.other (← j.nat "stype"))
  else throw s!"unknown stats kind {st}"

def parseMsg (j : J) : Except String Msg := do
  let k ← j.string "k"
  let x ← j.nat "xid"
  if k = "hello" then pure (.hello x)
  else if k = "echo_request" then pure (.echoRequest x (← j.bytes "body"))
  else if k = "echo_reply" then pure (.echoReply x (← j.bytes "body"))
  else if k = "vendor" then pure (.vendor x (← j.nat "vendor"))
  else if k = "features_request" then pure (.featuresRequest x)
  else if k = "get_config_request" then pure (.getConfigRequest x)
  else if k = "set_config" then pure (.setConfig x (← j.nat "flags") (← j.nat "miss"))
  else if k = "packet_out" then pure (.packetOut x (← j.optNat "bid") (← j.boolean "data") (← j.nat "in_port") (← parseActs j "acts"))
  else if k = "flow_mod" then
    pure (.flowMod x (← j.nat "cmd") (← j.optNat "mkey") (← j.nat "prio") (← j.nat "cookie") (← j.nat "flags")
            (← j.nat "idle") (← j.nat "hard") (← j.nat "out_port") (← j.optNat "bid") (← parseActs j "acts"))
  else if k = "port_mod" then pure (.portMod x (← j.nat "port") (← j.nat "hw") (← j.nat "config") (← j.nat "mask"))
  else if k = "stats_request" then pure (.statsRequest x (← parseStats j))
  else if k = "barrier_request" then pure (.barrierRequest x)
  else if k = "queue_get_config_request" then pure (.queueGetConfigRequest x (← j.nat "port"))
  else if k = "unhandled" then pure (.unhandled (← j.nat "ty") x)
  else throw s!"unknown message kind {k}"

def parseEvent (j : J) : Except String Event := do
  let k ← j.string "k"
  if k = "rejected" then pure (.rejected (← j.nat "xid") (← j.nat "code"))
  else if k = "bad_version" then pure (.badVersion (← j.nat "xid") (← j.boolean "starting"))
  else if k = "traffic" || k = "rx" then
    let bufs ← match j.get? "buffers" with
      | none => pure none
      | some .null => pure none
      | some v => do pure (some ((← v.asNats).map (· != 0)))
    let n : Snapshot := { ports := ← (← j.array "ports").mapM parseCtr, flows := ← (← j.array "flows").mapM parsePair, buffers := bufs }
    if k = "rx" then pure (.rx (← j.nat "in_port") n) else pure (.traffic n)
  else pure (.msg (← parseMsg j))

def ctrJ (c : PortCtr) : J := J.ofNats [c.no, c.rxPackets, c.txPackets, c.rxBytes, c.txBytes]

def portJ (p : Port) : J := J.ofNats [p.no, p.hw, p.config, p.state]
def flowJ (f : Flow) : J := J.arr [J.ofNat f.priority, J.ofNat f.cookie, J.ofOptNat f.mkey, J.ofNat f.packets, J.ofNat f.bytes]

def bodyJ : StatsBody → J
  | .desc => J.mk [("k", J.str "desc")]
  | .flows l => J.mk [("k", J.str "flows"), ("l", J.arr (l.map flowJ))]
  | .aggregate p b n => J.mk [("k", J.str "aggregate"), ("n", J.ofNat n), ("packets", J.ofNat p), ("bytes", J.ofNat b)]
  | .table m a l h => J.mk [("k", J.str "table"), ("v", J.ofNats [m, a, l, h])]
  | .ports l => J.mk [("k", J.str "ports"), ("l", J.arr (l.map ctrJ))]
  | .queues => J.mk [("k", J.str "queues"), ("n", J.ofNat 0)]

def replyJ : Reply → J
  | .hello x => J.mk [("t", J.str "hello"), ("xid", J.ofNat x)]
  | .echoReply x b => J.mk [("t", J.str "echo_reply"), ("xid", J.ofNat x), ("body", J.ofBytes b)]
  | .featuresReply x d nb nt c a ps =>
    J.mk [("t", J.str "features_reply"), ("xid", J.ofNat x), ("dpid", J.ofNat d), ("nbuf", J.ofNat nb), ("ntab", J.ofNat nt),
          ("caps", J.ofNat c), ("acts", J.ofNat a), ("ports", J.arr (ps.map portJ))]
  | .getConfigReply x f m => J.mk [("t", J.str "get_config_reply"), ("xid", J.ofNat x), ("flags", J.ofNat f), ("miss", J.ofNat m)]
  | .barrierReply x => J.mk [("t", J.str "barrier_reply"), ("xid", J.ofNat x)]
  | .statsReply x t more b =>
    J.mk ([("t", J.str "stats_reply"), ("xid", J.ofNat x), ("stype", J.ofNat t), ("body", bodyJ b)] ++ (if more then [("flags", J.ofNat 1)] else []))
  | .queueGetConfigReply x p => J.mk [("t", J.str "queue_get_config_reply"), ("xid", J.ofNat x), ("port", J.ofNat p), ("nq", J.ofNat 0)]
  | .error x t c => J.mk [("t", J.str "error"), ("xid", J.ofNat x), ("etype", J.ofNat t), ("code", J.ofNat c)]
  | .packetIn b => J.mk [("t", J.str "packet_in"), ("bid", J.ofOptNat b)]
  | .portStatus r p => J.mk [("t", J.str "port_status"), ("reason", J.ofNat r), ("port", portJ p)]
  | .flowRemoved f r => J.mk [("t", J.str "flow_removed"), ("prio", J.ofNat f.priority), ("cookie", J.ofNat f.cookie), ("reason", J.ofNat r)]

def errName : Err → String
  | .key => "KeyError" | .name => "NameError" | .attr => "AttributeError" | .runtime => "RuntimeError" | .struct _ => "error" | .unmodelled => "unmodelled"

def groupJ : Except Err (List Reply) → J
  | .ok o => J.mk [("out", J.arr (o.map replyJ))]
  | .error e => J.mk [("fail", J.str (errName e)), ("sent", J.ofNat (match e with | .struct k => k | _ => 0))]

def finalJ (s : SwitchState) : J :=
  J.mk [("config", J.ofNats [s.configFlags, s.missSendLen]), ("hello", J.bool s.hasSentHello),
        ("ports", J.arr (s.ports.map portJ)),
        ("table", J.arr (s.table.map fun f => J.arr [J.ofNat f.priority, J.ofNat f.cookie, J.ofOptNat f.mkey, J.ofNat f.flags, J.ofNats f.outs])),
        ("buffers", J.ofNats (s.buffers.map fun b => if b then 1 else 0))]

/-- request {"state":{…},"msgs":[…]} → {"groups":[{"out":[…]}|{"fail":…},…],"final":{…}} -/
def handle (j : J) : Except String J := do
  let s ← parseState (← j.get "state")
  let ms ← (← j.array "msgs").mapM parseEvent
  let r := runEvTolerant s ms
  pure (J.mk [("groups", J.arr (r.2.map groupJ)), ("final", finalJ r.1)])

def main : IO Unit := serve handle
