import PoxModel.Base.Proto
import PoxModel.Model.Handoff
import PoxModel.Model.CoopLock
import PoxModel.Model.HandoffSites
import PoxModel.Model.SendPath
open Pox Pox.Proto Pox.Handoff

def siteNames : List (String × Site) :=
  [("f_begin", .f_begin), ("cl_lock", .cl_lock), ("cl_isNone", .cl_isNone), ("cl_create", .cl_create),
   ("cl_unlock", .cl_unlock), ("clt_append", .clt_append), ("clt_ping", .clt_ping), ("sch_spawn", .sch_spawn),
   ("fs_assert", .fs_assert), ("fs_append", .fs_append), ("fs_appendleft", .fs_appendleft), ("bi_set", .bi_set),
   ("cy_ping", .cy_ping), ("se_create", .se_create), ("se_acqIn", .se_acqIn), ("sx_relOut", .sx_relOut),
   ("run_len", .run_len), ("idle_wait", .idle_wait), ("idle_clear", .idle_clear), ("cyc_pop", .cyc_pop),
   ("cyc_append", .cyc_append), ("user_body", .user_body), ("st_contains", .st_contains), ("sch_contains", .sch_contains), ("sy_relIn", .sy_relIn),
   ("sy_acqOut", .sy_acqOut), ("rs_put", .rs_put), ("clt_pong", .clt_pong), ("clt_pop", .clt_pop),
   ("clt_call", .clt_call), ("sel_select", .sel_select), ("sel_pong", .sel_pong), ("sel_empty", .sel_empty),
   ("sel_get", .sel_get)]

def siteName (x : Site) : String :=
  match siteNames.find? (fun p => p.2 = x) with
  | some p => p.1
  | none => "?"

def parseSite (n : String) : Except String Site :=
  match siteNames.find? (fun p => p.1 = n) with
  | some p => .ok p.2
  | none => .error s!"unknown site {n}"

def parseOp (j : J) : Except String Op := do
  let k ← j.string "o"
  if k = "callLater" then pure .callLater
  else if k = "schedule" then pure (.schedule (← j.nat "t"))
  else if k = "syncEnter" then pure .syncEnter
  else if k = "syncExit" then pure .syncExit
  else throw s!"unknown op {k}"

/-- a trace entry: the operation a thread performed on a shared object, given as the model actions that operation can be
    (`a|b|c`: the harness identifies operations by the OBJECT they touch, not by the statement performing them) -/
structure EvC where
  tid : Tid
  sites : List Site
  timeout : Bool
  /-- the entry is a pure OBSERVATION of a shared object (alternative `skip`): when the thread's next modelled action is not among the
      alternatives, the entry has no step of its own and is passed over -/
  optional : Bool := false

def parseEv (j : J) : Except String EvC := do
  match ← j.asArr with
  | [t, s, o] =>
    let names := (← s.asStr).splitOn "|"
    let opt := names.contains "skip"
    pure { tid := ← t.asNat, sites := ← (names.filter (· ≠ "skip")).mapM parseSite, timeout := (← o.asNat) ≠ 0, optional := opt }
  | _ => throw "trace entry must be [tid, site|site.., timeout]"

/-- model actions without an event of their own (they read state that only changes under a lock the thread holds): taken
    just before the thread's next event -/
def silent : Site → Bool
  | .cl_isNone => true
  | _ => false

/-- `Handoff.replay` for entries with alternatives: the thread's labelled next action (after its silent ones) must be among
    the entry's alternatives and be enabled. -/
def replayC (s : State) (n : Nat) : List EvC → Except (Nat × State) State
  | [] => .ok s
  | e :: es =>
    let s1 := match siteOf s e.tid with
      | some x => if silent x && !(e.sites.contains x) then (step s e.tid).getD s else s
      | none => s
    match siteOf s1 e.tid with
    | none => .error (n, s1)
    | some x =>
      if !(e.sites.contains x) then (if e.optional then replayC s (n + 1) es else .error (n, s1))
      else match (if e.timeout then stepT s1 e.tid else step s1 e.tid) with
        | none => .error (n, s1)
        | some s' => replayC s' (n + 1) es

/-- user program items: 0 = `yield False`, 1 = `yield 0`, 2 = `callLater(f)`, 3+v = `schedule(v)` inside the slice -/
def parseBools (j : J) : Except String (List UItem) := do
  (← j.asNats).mapM fun n => pure (if n = 0 then UItem.yieldF else if n = 1 then UItem.yield0
    else if n = 2 then UItem.callLater else UItem.sched (n - 3))

/-- structural description of a task, independent of allocation order -/
def descTask (s : State) (fuel : Nat) (t : TaskId) : String :=
  match fuel with
  | 0 => "?"
  | fuel + 1 =>
    match s.tasks[t]? with
    | some (.user _) => s!"u{t}"
    | some (.clt _) => "clt"
    | some (.st tg _) => "st(" ++ descTask s fuel tg ++ ")"
    | some (.sync o _ _ _) => s!"sync{o}"
    | none => "?"

def obsOf (s : State) : List (String × J) :=
  [("executed", J.arr (s.executed.map fun (e, t) => J.ofNats [e.by_, e.seq, t])),
   ("pending", J.arr (s.calls.map fun e => J.ofNats [e.by_, e.seq])),
   ("ready", J.arr (s.ready.map fun t => J.str (descTask s 3 t))),
   ("slices", J.ofNats s.slices),
   ("enabled", J.ofNats (enabled s)),
   ("next", J.arr ((List.range (s.fs.length + 2)).map fun t => J.arr [J.ofNat t, J.str (match siteOf s t with
      | some x => siteName x
      | none => "none")])),
   ("event", J.bool s.event), ("hub_pipe", J.ofNat s.hubPipe), ("clt_pipe", J.ofNat s.cltPipe),
   ("lock", J.bool s.lock),
   ("crashed", J.ofNats ((List.range s.fs.length).filter fun i =>
      match s.fs[i]? with
      | some f => f.pc = .crashed
      | none => false))]

def handleReplay (j : J) : Except String J := do
  let users ← (← j.array "users").mapM parseBools
  let progs ← (← j.array "progs").mapM fun p => do (← p.asArr).mapM parseOp
  let trace ← (← j.array "trace").mapM parseEv
  let s0 := init (← j.boolean "threaded") users progs
  match replayC s0 0 trace with
  | .ok s => pure (J.mk (("ok", J.bool true) :: obsOf s))
  | .error (n, s) =>
    let e := trace[n]?
    let want := match e with
      | some e => match siteOf s e.tid with
        | some x => siteName x
        | none => "none"
      | none => "?"
    let en := match e with
      | some e => (if e.timeout then stepT s e.tid else step s e.tid).isSome
      | none => false
    pure (J.mk ([("ok", J.bool false), ("at", J.ofNat n), ("model_site", J.str want), ("model_enabled", J.bool en)]
      ++ obsOf s))

def tagJ : Pox.HandoffSites.Tag → List (String × J)
  | .act s => [("tag", J.str "act"), ("site", J.str (siteName s))]
  | .call => [("tag", J.str "call")]
  | .loc => [("tag", J.str "loc")]
  | .nm => [("tag", J.str "nm")]
  | .lk => [("tag", J.str "lk")]
  | .pg => [("tag", J.str "pg")]

def tableJ : J :=
  J.mk [("table", J.arr (Pox.HandoffSites.table.map fun (f, l) =>
    J.mk [("fn", J.str f), ("items", J.arr (l.map fun (t, tg) => J.mk (("text", J.str t) :: tagJ tg)))]))]

open Pox.CoopLock in
def holderJ : Option Holder → J
  | none => J.null
  | some .flag => J.str "flag"
  | some (.task t) => J.ofNat t

/-- sort a small list of naturals (insertion sort; driver only) -/
def sortNats (l : List Nat) : List Nat :=
  l.foldl (fun acc x => (acc.filter (· ≤ x)) ++ [x] ++ (acc.filter (· > x))) []

open Pox.CoopLock in
/-- `{"op":"lock","init":[0|1,…],"ops":[{"k":"acq","t":..,"l":..,"b":0|1} | {"k":"rel","l":..,"choice":..}]}`:
    applies `_do_acquire` / `_do_release` to the named lock and reports, per operation, what the caller sees and the
    lock's state -/
def handleLock (j : J) : Except String J := do
  let ini ← j.nats "init"
  let ops ← j.array "ops"
  let mut locks : List Lock := ini.map fun b => if b ≠ 0 then { locked := some .flag } else {}
  let mut out : List J := []
  for o in ops do
    let k ← o.string "k"
    let li ← o.nat "l"
    let some l := locks[li]? | throw "no such lock"
    if k = "acq" then
      let (l', r) := acquire l (← o.nat "t") ((← o.nat "b") ≠ 0)
      locks := locks.set li l'
      let rs := match r with
        | .resumed true => "true"
        | .resumed false => "false"
        | .parked => "parked"
      out := out ++ [J.mk [("res", J.str rs), ("holder", holderJ l'.locked), ("waiting", J.ofNats (sortNats l'.waiting))]]
    else if k = "rel" then
      match release l (← o.nat "choice") with
      | .ok (l', w) =>
        locks := locks.set li l'
        out := out ++ [J.mk [("res", J.str "released"), ("woken", J.ofOptNat w), ("holder", holderJ l'.locked),
                             ("waiting", J.ofNats (sortNats l'.waiting))]]
      | .error .notLocked =>
        out := out ++ [J.mk [("res", J.str "RuntimeError"), ("holder", holderJ l.locked), ("waiting", J.ofNats (sortNats l.waiting))]]
      | .error .badChoice => throw "reported set.pop() result is not a waiter in the model"
    else throw s!"unknown lock op {k}"
  pure (J.mk [("steps", J.arr out)])

/-! strict replay of C20's two-actor send-path model (`Model/SendPath.lean`, Part B): unlike `crun` (which skips
    actions that are not enabled) this reports the first action the model cannot take.  Used by harness/c20_threads.py. -/
namespace SP
open Pox.SendPath

def parseOutcome (j : J) : Except String Outcome := do
  let k ← j.string "o"
  if k = "accept" then pure (.accept (← j.nat "k"))
  else if k = "again" then pure .again
  else if k = "fatal" then pure .fatal
  else throw s!"unknown outcome {k}"

def parseAct (j : J) : Except String Act := do
  let k ← j.string "a"
  if k = "coopCheck" then pure (.coopCheck (← j.bytes "d"))
  else if k = "coopGo" then pure (.coopGo (← parseOutcome j))
  else if k = "coopEnq" then pure .coopEnq
  else if k = "senderBegin" then pure .senderBegin
  else if k = "senderSend" then pure (.senderSend (← parseOutcome j))
  else if k = "senderFinish" then pure .senderFinish
  else if k = "envEnq" then pure .envEnq
  else if k = "envDone" then pure (.envDone (← j.boolean "reset"))
  else throw s!"unknown act {k}"

def strict (s : Ctl) (n : Nat) : List Act → Nat × Option Nat × Ctl
  | [] => (n, none, s)
  | a :: as =>
    match cstep s a with
    | none => (n, some n, s)
    | some s' => strict s' (n + 1) as

def handle (j : J) : Except String J := do
  let acts ← (← j.array "acts").mapM parseAct
  let (n, rej, s) := strict { pb := (← j.nat "pb") } 0 acts
  pure (J.mk [("taken", J.ofNat n), ("rejected_at", J.ofOptNat rej),
              ("accepted", J.ofBytes s.accepted), ("pending", J.arr (s.pending.map J.ofBytes)), ("disc", J.bool s.disc),
              ("sending", J.bool s.sending), ("offered_after_disc", J.ofNat s.offeredAfterDisc),
              ("queued", J.ofBytes s.queued), ("lock_held", J.bool s.lockHeld),
              ("coop_idle", J.bool (s.coop = .idle)), ("sender_idle", J.bool (s.sender = .idle))])
end SP

def handle (j : J) : Except String J := do
  let op ← j.string "op"
  if op = "replay" then handleReplay j
  else if op = "sendpath_strict" then SP.handle j
  else if op = "lock" then handleLock j
  else if op = "table" then pure tableJ
  else if op = "ops" then
    pure (J.mk [("ops", J.arr (Pox.HandoffSites.ops.map fun (f, els) => J.mk [("fn", J.str f), ("els", J.arr (els.map J.str))]))])
  else if op = "pinger" then
    -- sequence of 0 = ping, 1 = pongAll on a fresh pipe; answers the byte count after each op (error if pongAll blocks)
    let ops ← j.nats "ops"
    let r := ops.foldl (fun (acc : Option (Nat × List Nat)) o =>
      match acc with
      | none => none
      | some (n, out) =>
        if o = 0 then some (n + 1, out ++ [n + 1])
        else if n = 0 then none else some (n - 1024, out ++ [n - 1024])) (some (0, []))
    match r with
    | some (_, out) => pure (J.mk [("counts", J.ofNats out)])
    | none => pure (J.mk [("blocks", J.bool true)])
  else throw s!"unknown op {op}"

def main : IO Unit := serve handle
