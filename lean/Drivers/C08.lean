import PoxModel.Base.Proto
import PoxModel.Model.Core
open Pox Pox.Proto Pox.Core

/-! Line-protocol driver of the C08 model.  Component names travel as strings and are interned here (index 0 = "core");
the machine itself (`Model/Core.lean`) works on numbers.

request  {"repaired":bool, "fuel":n, "bodies":[[act…]…], "onGoingUp":[act…], "onUp":…, "onGoingDown":…, "onDown":…,
          "sinks":[{"attrs":[callable attr…], "noncallable":[attr…], "explicit":[str…], "met":body|null, "set_attrs":bool, "short_attrs":bool}…], "events":[[comp,[event…]]…], "ops":[op…]}
act      {"a":"register","n":str} {"a":"declare","deps":[str…],"body":k} {"a":"listen","sink":k} {"a":"getDeferral"}
         {"a":"release","k":i} {"a":"quit"} {"a":"raise"}          op = act | {"a":"goUp"} | {"a":"tick"}
response {"log":[event…], "marks":[log length after each op], "comps":[str…], "pending":[id…], "outstanding":n, "decls":[[id,body]…],
          "sinks":[{"id":decl id,"sink":k,"fired":bool,"deps":[str…],"attrs":[attribute names set on the sink],"bound":[[attr,comp,event]…]}…]} -/

abbrev PM := StateT (List String) (Except String)

def intern (s : String) : PM Nat := do
  let tbl ← get
  match tbl.idxOf? s with
  | some i => pure i
  | none => set (tbl ++ [s]); pure tbl.length

def liftE {α} (e : Except String α) : PM α := StateT.lift e

structure SinkD where
  attrs : List String             -- callable attributes (methods)
  noncallable : List String       -- other attributes of dir(sink): parsed for component names, never bound
  explicit : List String
  met : Option Nat
  setAttrs : Bool
  short : Bool

def parseAct (nb : Nat) (sinks : List SinkD) (j : J) : PM Act := do
  let a ← liftE (j.string "a")
  match a with
  | "register" => do let n ← intern (← liftE (j.string "n")); pure (.register n)
  | "declare" => do
      let ds ← (← liftE (j.array "deps")).mapM (fun d => do intern (← liftE d.asStr))
      let b ← liftE (j.nat "body")
      if b ≥ nb then throw s!"body {b} out of range"
      pure (.declare ds b)
  | "listen" => do
      let k ← liftE (j.nat "sink")
      match sinks[k]? with
      | none => throw s!"sink {k} out of range"
      | some s =>
        let ds ← (listenDeps s.explicit (s.attrs ++ s.noncallable)).mapM intern
        pure (.listen ds (nb + k))
  | "getDeferral" => pure .getDeferral
  | "release" => do pure (.release (← liftE (j.nat "k")))
  | "quit" => pure .quit
  | "raise" => pure .raise
  | other => throw s!"unknown act {other}"

def parseOp (nb : Nat) (sinks : List SinkD) (j : J) : PM Op := do
  let a ← liftE (j.string "a")
  match a with
  | "goUp" => pure .goUp
  | "tick" => pure .tick
  | _ => do pure (.act (← parseAct nb sinks j))

def parseScript (nb : Nat) (sinks : List SinkD) (j : J) (k : String) : PM (List Act) := do
  (← liftE (j.array k)).mapM (parseAct nb sinks)

def parseSink (j : J) : Except String SinkD := do
  let attrs ← (← j.array "attrs").mapM J.asStr
  let noncallable ← (← j.array "noncallable").mapM J.asStr
  let explicit ← (← j.array "explicit").mapM J.asStr
  let met ← j.optNat "met"
  let setAttrs ← j.boolean "set_attrs"
  let short ← j.boolean "short_attrs"
  pure { attrs, noncallable, explicit, met, setAttrs, short }

def evJ (tbl : List String) : Ev → J
  | .fired id snap => J.arr [J.str "fired", J.ofNat id, J.arr (snap.map fun n => J.str (tbl.getD n "?"))]
  | .failed id => J.arr [J.str "failed", J.ofNat id]
  | .goingUp => J.arr [J.str "goingUp"]
  | .up k => J.arr [J.str "up", J.ofNat k]
  | .goingDown => J.arr [J.str "goingDown"]
  | .down => J.arr [J.str "down"]
  | .waiting n => J.arr [J.str "waiting", J.ofNat n]
  | .opRaised => J.arr [J.str "opRaised"]
  | .threadDied => J.arr [J.str "threadDied"]

def handleM (j : J) : PM J := do
  let repaired ← liftE (j.boolean "repaired")
  let fuel ← liftE (j.nat "fuel")
  let sinks ← liftE ((← j.array "sinks").mapM parseSink)
  let bodiesJ ← liftE (j.array "bodies")
  let nb := bodiesJ.length
  let bodies ← bodiesJ.mapM (fun b => do (← liftE b.asArr).mapM (parseAct nb sinks))
  for s in sinks do
    match s.met with
    | some b => if b ≥ nb then throw s!"met body {b} out of range"
    | none => pure ()
  let sinkBodies : List (List Act) := sinks.map fun s => match s.met with
    | some b => bodies.getD b []          -- range checked above
    | none => []
  let allBodies := bodies ++ sinkBodies
  let evTbl ← liftE ((← j.array "events").mapM fun p => do
    match p with
    | J.arr [c, evs] => do pure ((← c.asStr), (← (← evs.asArr).mapM J.asStr))
    | _ => throw "events: [comp,[event…]] expected")
  let P : Prog := {
    body := fun i => allBodies.getD i []   -- indices are range-checked at parse time; bodies beyond the table are never referenced
    onGoingUp := ← parseScript nb sinks j "onGoingUp"
    onUp := ← parseScript nb sinks j "onUp"
    onGoingDown := ← parseScript nb sinks j "onGoingDown"
    onDown := ← parseScript nb sinks j "onDown"
    repaired := repaired }
  let ops ← (← liftE (j.array "ops")).mapM (parseOp nb sinks)
  let (m, marks) ← match execMarks P fuel ops {} [] with
    | some r => pure r
    | none => throw "out of fuel: an operation did not return"
  let tbl ← get
  let nm (n : Nat) : String := tbl.getD n "?"
  let firedIds := m.core.log.filterMap fun | .fired id _ => some id | _ => none
  let sinkOut := m.core.decls.filterMap fun e =>
    if e.body ≥ nb then
      let k := e.body - nb
      match sinks[k]? with
      | none => none
      | some s =>
        let deps := listenDeps s.explicit (s.attrs ++ s.noncallable)
        let fired := firedIds.contains e.id
        let bound := if fired then wiring deps s.attrs (fun c => (evTbl.find? (·.1 = c)).map (·.2)) else []
        let set := if fired then sinkAttrs s.setAttrs s.short deps else []
        some (J.mk [("id", J.ofNat e.id), ("sink", J.ofNat k), ("fired", J.bool fired), ("deps", J.arr (deps.map J.str)),
                    ("attrs", J.arr (set.map J.str)),
                    ("bound", J.arr (bound.map fun (a, c, ev) => J.arr [J.str a, J.str c, J.str ev]))])
    else none
  pure (J.mk [("log", J.arr (m.core.log.map (evJ tbl))), ("marks", J.ofNats marks),
              ("comps", J.arr (m.core.comps.map fun n => J.str (nm n))),
              ("pending", J.ofNats (m.core.waiters.map (·.id))),
              ("outstanding", J.ofNat m.core.deferrals.length),
              ("decls", J.arr (m.core.decls.map fun e => J.ofNats [e.id, e.body])),
              ("sinks", J.arr sinkOut)])

def handle (j : J) : Except String J := do
  let (r, _) ← (handleM j).run ["core"]
  pure r

def main : IO Unit := serve handle
