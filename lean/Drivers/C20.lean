import PoxModel.Base.Proto
import PoxModel.Model.SendPath
open Pox Pox.Proto Pox.SendPath

def parseOutcome (j : J) : Except String Outcome := do
  let k ← j.string "o"
  if k = "accept" then pure (.accept (← j.nat "k"))
  else if k = "again" then pure .again
  else if k = "fatal" then pure .fatal
  else throw s!"unknown outcome {k}"

def parseOp (j : J) : Except String Op := do
  let k ← j.string "op"
  if k = "send" then pure (.send (← j.bytes "d"))
  else if k = "sendfast" then pure (.sendFast (← j.bytes "d") (← parseOutcome j))
  else if k = "pump" then pure (.pump (← parseOutcome j))
  else if k = "pumprw" then
    let r ← j.string "rx"
    let rx ← if r = "data" then pure Rx.data else if r = "eof" then pure Rx.eof else if r = "error" then pure Rx.error
             else throw s!"unknown rx {r}"
    pure (.pumpRW rx (← parseOutcome j))
  else if k = "shutdown" then pure .shutdown
  else if k = "close" then pure .close
  else throw s!"unknown op {k}"

def parseAct (j : J) : Except String Act := do
  let k ← j.string "a"
  if k = "coopCheck" then pure (.coopCheck (← j.bytes "d"))
  else if k = "coopGo" then pure (.coopGo (← parseOutcome j))
  else if k = "coopEnq" then pure .coopEnq
  else if k = "senderBegin" then pure .senderBegin
  else if k = "senderSend" then pure (.senderSend (← parseOutcome j))
  else if k = "senderFinish" then pure .senderFinish
  else if k = "envEnq" then pure .envEnq
  else if k = "envDone" then pure (.envDone (← j.boolean "reset"))
  else if k = "envDisc" then pure .envDisc
  else if k = "coopDisc" then pure .coopDisc
  else if k = "senderPurge" then pure .senderPurge
  else throw s!"unknown act {k}"

def parseMOp (j : J) : Except String MOp := do
  let k ← j.string "op"
  if k = "send" then pure (.send (← j.nat "c") (← j.bytes "d") (← parseOutcome j))
  else if k = "disc" then pure (.disc (← j.nat "c") (← j.boolean "close"))
  else if k = "flush" then
    let ws ← (← j.array "w").mapM fun w => do
      let outs ← (← w.array "outs").mapM parseOutcome
      pure ((← w.nat "c"), outs)
    pure (.flush ws)
  else throw s!"unknown multi-connection op {k}"

def handle (j : J) : Except String J := do
  let part ← j.string "part"
  if part = "A" then
    let ops ← (← j.array "ops").mapM parseOp
    let guard := match j.get? "guard" with | some (J.bool b) => b | _ => true
    let s := runWith guard ops
    pure (J.mk [("accepted", J.ofBytes s.accepted), ("send_buf", J.ofBytes s.sendBuf), ("closed", J.bool s.closed),
                ("close_events", J.ofNat s.closeEvents), ("offered", J.ofNat s.offered),
                ("offered_after_fatal", J.ofNat s.offeredAfterClose),
                ("shut_wr", J.arr (s.shutLog.map fun e => J.ofNats [e.1.length, e.2.length])),
                -- the state after every operation (every prefix of the history), for the over-time theorem
                ("trace", J.arr ((List.range ops.length).map fun i =>
                    let t := runWith guard (ops.take (i + 1))
                    J.ofNats [t.accepted.length, t.sendBuf.length, if t.closed then 1 else 0]))])
  else if part = "M" then
    -- several connections sharing the deferred sender: one view per connection (Model/SendPath.lean Part C)
    let ops ← (← j.array "ops").mapM parseMOp
    let n ← j.nat "n"
    for op in ops do
      let bad : Bool := match op with
        | .send c _ _ => decide (c ≥ n)
        | .disc c _ => decide (c ≥ n)
        | .flush ws => ws.any fun w => decide (w.1 ≥ n)
      if bad then throw "connection index out of range"
    let pb ← j.nat "pb"
    let vs := mrun pb n ops
    pure (J.mk [("views", J.arr (vs.map fun v => J.mk
      [("accepted", J.ofBytes v.st.accepted), ("pending", J.arr (v.st.pending.map J.ofBytes)), ("disc", J.bool v.st.disc),
       ("sending", J.bool v.st.sending), ("offered_after_disc", J.ofNat v.st.offeredAfterDisc)])),
      -- every connection's view after every whole operation (every prefix of the history); last entry = the shared flag
      ("trace", J.arr ((List.range ops.length).map fun i =>
          let ws := mrun pb n (ops.take (i + 1))
          J.arr (ws.map (fun v => J.ofNats [v.st.accepted.length, v.st.pending.flatten.length, if v.st.disc then 1 else 0])
                 ++ [J.ofNat (if ws.any (fun v => v.st.sending) then 1 else 0)])))])
  else if part = "B" then
    let acts ← (← j.array "acts").mapM parseAct
    let pb ← j.nat "pb"
    let s := crun { pb := pb } acts
    -- optional: the state after the first k actions, for every k in `marks` (the ends of the harness's whole operations)
    let marks ← match j.get? "marks" with | some _ => j.nats "marks" | none => pure []
    pure (J.mk [("accepted", J.ofBytes s.accepted), ("pending", J.arr (s.pending.map J.ofBytes)), ("disc", J.bool s.disc),
                ("sending", J.bool s.sending), ("offered_after_disc", J.ofNat s.offeredAfterDisc),
                ("trace", J.arr (marks.map fun k =>
                    let t := crun { pb := pb } (acts.take k)
                    J.ofNats [t.accepted.length, t.pending.flatten.length, if t.disc then 1 else 0, if t.sending then 1 else 0]))])
  else throw s!"unknown part {part}"

def main : IO Unit := serve handle
