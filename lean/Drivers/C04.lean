import PoxModel.Base.Proto
import PoxModel.Model.FlowMod
import PoxModel.Spec.OF10Table
/-! Line-protocol driver for C04: runs the model (`Model/FlowMod.step`) and, separately, the specification
(`Spec/OF10Table.step`) over one history.

request  `{"now":ms,"max":n,"bufs":n,"cfg":[strictMutual,maskUndefined,statsUnwire,arpLow8,prereqExact,exactSig,tosDscp],"ops":[op…]}` with
  `{"op":"fm","cmd":n,"m":rec,"cookie":n,"idle":n,"hard":n,"prio":n,"out_port":n,"flags":n,"acts":[act…],"buf":n|null}`
  `{"op":"pkt","phdr":P,"port":n,"len":n}`   `{"op":"adv","dt":ms}`   `{"op":"sweep"}`
  `{"op":"fstats","m":rec,"out_port":n}`     `{"op":"astats","m":rec,"out_port":n}`
  `rec = [wildcards,in_port,dl_src,dl_dst,dl_vlan,dl_vlan_pcp,dl_type,nw_tos,nw_proto,nw_src,nw_dst,tp_src,tp_dst]`,
  `act = [0,port,max_len] | [1,kind,arg]`, `P` as in `Drivers/C03`.
answer   `{"model":[{"outs":[out…],"table":[entry…],"pool":[0/1…]}… per step], "spec":[{"outs":[…],"flows":[…],"pool":[0/1…]}…]}`
  model entry `[priority, effective priority, wildcards + attribute views of the match object, acts, cookie, flags, idle, hard, created, touched, packets, bytes]`
  spec flow   `[priority, rank, rec as transmitted, acts, cookie, flags, idle, hard, installed, lastUsed, packets, bytes]`
  out: `{"k":"fr","m":rec,"cookie","prio","reason","ds","dn","idle","pk","by"}` | `{"k":"err","t","c"}` | `{"k":"pin","port","bid","reason"}`
     | `{"k":"rel","id","len","port","acts"}`
     | `{"k":"fs","l":[[rec,ds,dn,prio,idle,hard,cookie,pk,by,acts]…]}` | `{"k":"as","pk","by","n"}` -/
open Pox Pox.Proto Pox.OF Pox.FlowMod

def bad {α : Type} (s : String) : Except String α := .error s

def recOf (j : J) : Except String OfMatch := do
  match ← j.asNats with
  | [w, ip, s, d, vl, pcp, ty, tos, pr, ns, nd, ts, td] =>
    pure { wildcards := w, inPort := ip, dlSrc := s, dlDst := d, dlVlan := vl, dlVlanPcp := pcp, dlType := ty, nwTos := tos,
           nwProto := pr, nwSrc := ns, nwDst := nd, tpSrc := ts, tpDst := td }
  | _ => bad "rec: 13 numbers expected"

def recJ (m : OfMatch) : J :=
  J.ofNats [m.wildcards, m.inPort, m.dlSrc, m.dlDst, m.dlVlan, m.dlVlanPcp, m.dlType, m.nwTos, m.nwProto, m.nwSrc, m.nwDst, m.tpSrc, m.tpDst]

def l4Of (j : J) : Except String L4 := do
  if j.isNull then return .none
  match ← j.asArr with
  | [J.str "p", a, b] => pure (.ports (← a.asNat) (← b.asNat))
  | [J.str "i", a, b] => pure (.icmp (← a.asNat) (← b.asNat))
  | _ => bad "l4"

def l3Of (j : J) : Except String L3 := do
  if j.isNull then return .other
  match ← j.asArr with
  | [J.str "ip", s, d, pr, tos, fr, l4] =>
    pure (.ipv4 (← s.asNat) (← d.asNat) (← pr.asNat) (← tos.asNat) (← fr.asBool) (← l4Of l4))
  | [J.str "arp", op, s, d] => pure (.arp (← op.asNat) (← s.asNat) (← d.asNat))
  | _ => bad "l3"

def phdrOf (j : J) : Except String PHdr := do
  let llcJ ← j.get "llc"
  let llc : Option Llc ← (if llcJ.isNull then pure none else do
    match ← llcJ.asArr with
    | [o, t] => pure (some { snapOui := (← (if o.isNull then pure none else do pure (some (← o.asNat)))), ethType := (← t.asNat) })
    | _ => bad "llc")
  let vJ ← j.get "vlan"
  let vlan : Option Vlan ← (if vJ.isNull then pure none else do
    match ← vJ.asNats with
    | [i, p, t] => pure (some { id := i, pcp := p, ethType := t })
    | _ => bad "vlan")
  pure { src := (← j.nat "src"), dst := (← j.nat "dst"), typ := (← j.nat "typ"), llc := llc, vlan := vlan, l3 := (← l3Of (← j.get "l3")) }

/-- a match object through its public attributes: the wildcard word and the attribute views (a wildcarded field reads 0) -/
def viewJ (m : OfMatch) : J :=
  J.ofNats [m.wildcards, (m.view .inPort).getD 0, (m.view .dlSrc).getD 0, (m.view .dlDst).getD 0, (m.view .dlVlan).getD 0,
    (m.view .dlVlanPcp).getD 0, (m.view .dlType).getD 0, (m.view .nwTos).getD 0, (m.view .nwProto).getD 0,
    (m.srcView.map (·.1)).getD 0, (m.dstView.map (·.1)).getD 0, (m.view .tpSrc).getD 0, (m.view .tpDst).getD 0]

def actOf (j : J) : Except String Action := do
  match ← j.asNats with
  | [0, p, l] => pure (.output p l)
  | [1, k, a] => pure (.other k a)
  | _ => bad "act"

def actJ : Action → J
  | .output p l => J.ofNats [0, p, l]
  | .other k a => J.ofNats [1, k, a]

def cmdOf : Nat → Except String Cmd
  | 0 => pure .add | 1 => pure .modify | 2 => pure .modifyStrict | 3 => pure .delete | 4 => pure .deleteStrict
  | n => pure (.unknown n)

def opOf (j : J) : Except String Op := do
  match ← j.string "op" with
  | "fm" =>
    pure (.flowMod { cmd := (← cmdOf (← j.nat "cmd")), mtch := (← recOf (← j.get "m")), cookie := (← j.nat "cookie"),
                     idle := (← j.nat "idle"), hard := (← j.nat "hard"), priority := (← j.nat "prio"), outPort := (← j.nat "out_port"),
                     flags := (← j.nat "flags"), actions := (← (← j.array "acts").mapM actOf), bufferId := (← j.optNat "buf") })
  | "pkt" => pure (.packet (← phdrOf (← j.get "phdr")) (← j.nat "port") (← j.nat "len"))
  | "adv" => pure (.advance (← j.nat "dt"))
  | "sweep" => pure .sweep
  | "fstats" => pure (.flowStats (← recOf (← j.get "m")) (← j.nat "out_port"))
  | "astats" => pure (.aggStats (← recOf (← j.get "m")) (← j.nat "out_port"))
  | o => bad s!"unknown op {o}"

def outJ : Out → J
  | .flowRemoved m => J.mk [("k", J.str "fr"), ("m", recJ m.packed), ("cookie", J.ofNat m.cookie), ("prio", J.ofNat m.priority),
      ("reason", J.ofNat m.reason), ("ds", J.ofNat m.durSec), ("dn", J.ofNat m.durNsec), ("idle", J.ofNat m.idle),
      ("pk", J.ofNat m.packets), ("by", J.ofNat m.bytes)]
  | .error t c => J.mk [("k", J.str "err"), ("t", J.ofNat t), ("c", J.ofNat c)]
  | .packetIn p b r => J.mk [("k", J.str "pin"), ("port", J.ofNat p), ("bid", J.ofOptNat b), ("reason", J.ofNat r)]
  | .release id f a => J.mk [("k", J.str "rel"), ("id", J.ofNat id), ("len", J.ofNat f.len), ("port", J.ofNat f.inPort),
      ("acts", J.arr (a.map actJ))]
  | .flowStats l => J.mk [("k", J.str "fs"), ("l", J.arr (l.map fun f =>
      J.arr [recJ f.packed, J.ofNat f.durSec, J.ofNat f.durNsec, J.ofNat f.priority, J.ofNat f.idle, J.ofNat f.hard, J.ofNat f.cookie,
             J.ofNat f.packets, J.ofNat f.bytes, J.arr (f.actions.map actJ)]))]
  | .aggStats p b n => J.mk [("k", J.str "as"), ("pk", J.ofNat p), ("by", J.ofNat b), ("n", J.ofNat n)]

def soutJ : Spec.SOut → J
  | .flowRemoved m => J.mk [("k", J.str "fr"), ("m", recJ m.mtch), ("cookie", J.ofNat m.cookie), ("prio", J.ofNat m.priority),
      ("reason", J.ofNat m.reason), ("ds", J.ofNat m.durSec), ("dn", J.ofNat m.durNsec), ("idle", J.ofNat m.idle),
      ("pk", J.ofNat m.packets), ("by", J.ofNat m.bytes)]
  | .error t c => J.mk [("k", J.str "err"), ("t", J.ofNat t), ("c", J.ofNat c)]
  | .packetIn p b r => J.mk [("k", J.str "pin"), ("port", J.ofNat p), ("bid", J.ofOptNat b), ("reason", J.ofNat r)]
  | .release id f a => J.mk [("k", J.str "rel"), ("id", J.ofNat id), ("len", J.ofNat f.len), ("port", J.ofNat f.inPort),
      ("acts", J.arr (a.map actJ))]
  | .flowStats l => J.mk [("k", J.str "fs"), ("l", J.arr (l.map fun f =>
      J.arr [recJ f.mtch, J.ofNat f.durSec, J.ofNat f.durNsec, J.ofNat f.priority, J.ofNat f.idle, J.ofNat f.hard, J.ofNat f.cookie,
             J.ofNat f.packets, J.ofNat f.bytes, J.arr (f.actions.map actJ)]))]
  | .aggStats p b n => J.mk [("k", J.str "as"), ("pk", J.ofNat p), ("by", J.ofNat b), ("n", J.ofNat n)]

def entryJ (cfg : Cfg) (e : FEntry) : J :=
  J.arr [J.ofNat e.priority, J.ofNat (cfg.key e), viewJ e.mtch, J.arr (e.data.actions.map actJ), J.ofNat e.data.cookie,
         J.ofNat e.data.flags, J.ofNat e.data.idle, J.ofNat e.data.hard, J.ofNat e.data.created, J.ofNat e.data.touched,
         J.ofNat e.data.packets, J.ofNat e.data.bytes]

def flowJ (f : Spec.SFlow) : J :=
  J.arr [J.ofNat f.priority, J.ofNat f.rank, recJ f.mtch, J.arr (f.actions.map actJ), J.ofNat f.cookie, J.ofNat f.flags,
         J.ofNat f.idle, J.ofNat f.hard, J.ofNat f.installed, J.ofNat f.lastUsed, J.ofNat f.packets, J.ofNat f.bytes]

def poolJ (p : BufPool.Pool BFrame) : J := J.ofNats (p.slots.map fun o => if o.isSome then 1 else 0)

def runModel (s : State) : List Op → List J
  | [] => []
  | op :: ops =>
    let r := step s op
    J.mk [("outs", J.arr (r.2.map outJ)), ("table", J.arr (r.1.table.map (entryJ r.1.cfg))), ("pool", poolJ r.1.pool)] :: runModel r.1 ops

def runSpec (t : Spec.STable) : List Op → List J
  | [] => []
  | op :: ops =>
    let r := Spec.step t op
    J.mk [("outs", J.arr (r.2.map soutJ)), ("flows", J.arr (r.1.flows.map flowJ)), ("pool", poolJ r.1.buffers)] :: runSpec r.1 ops

def handle (j : J) : Except String J := do
  let ops ← (← j.array "ops").mapM opOf
  let now ← j.nat "now"
  let mx ← j.nat "max"
  let mb ← j.nat "bufs"
  let cfg : Cfg ← (do
    match ← (← j.array "cfg").mapM J.asBool with
    | [a, b, c, d, e, f, g] =>
      pure { strictMutual := a, maskUndefined := b, statsUnwire := c, mv := { arpLow8 := d, prereqExact := e, exactSig := f }, tosDscp := g }
    | _ => bad "cfg: seven booleans expected")
  pure (J.mk [("model", J.arr (runModel (init cfg now mx mb) ops)),
              ("spec", J.arr (runSpec { flows := [], now := now, capacity := mx, buffers := { slots := [], max := mb } } ops))])

def main : IO Unit := serve handle
