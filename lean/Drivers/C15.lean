import PoxModel.Base.Proto
import PoxModel.Model.PacketParse
open Pox Pox.Proto Pox.Packet Pox.Parse

/-! Line-protocol driver for C15.

  {"op":"parse","raw":hex,"cfg":"repaired"|"head","d":n (optional nesting budget; default = Parse.budget raw),
   "fix":["K5",…] (optional: which repairs fixes/C15-K<n>_*.diff the tree has; cfg "repaired" only)}
     → {"exc":"<Python exception class>"}                                  when ethernet(raw=…) raises in the model
     → {"chain":[layer,…,terminal],"foreign":bool,"pack":hex|{"exc":…}|null,"print":"ok"|{"exc":…}|null}
        ("core":true in the request adds "core": the same answer of the phase-1 model Cfg.core; "known":"K9" … names the finding
         at which the model raises)
        layer    = {"k":class,"parsed":bool,"raw":hex, attributes…}   (no "raw" for icmp: icmp.parse does not keep it)
        terminal = {"k":"none"} | {"k":"bytes","data":hex} | {"k":"foreign","cls":…,"raw":hex}
        pack / print are null when the chain ends in a foreign layer (outside the model)
   "compact":true (jumbo frames: a 64 KB frame with a few hundred layers would be answered with hundreds of copies of itself):
        every layer's "raw", a terminal's "data" and "pack" are given as [length, digest] (`digest`: Adler-32)
-/

/-- Adler-32 of a byte string (the harness computes `zlib.adler32` over the implementation's bytes) -/
def digest (b : Bytes) : Nat :=
  let (lo, hi) := b.foldl (fun (p : Nat × Nat) x => let lo := (p.1 + x.toNat) % 65521; (lo, (p.2 + lo) % 65521)) (1, 0)
  hi * 65536 + lo

/-- a byte string in an answer: hex, or [length, digest] in compact answers -/
def rawJ (c : Bool) (b : Bytes) : J := if c then J.ofNats [b.length, digest b] else J.ofBytes b

def optJ : TcpOpt → J
  | .eol => J.mk [("t", J.ofNat 0)]
  | .nop => J.mk [("t", J.ofNat 1)]
  | .mss v => J.mk [("t", J.ofNat 2), ("v", J.ofNat v)]
  | .ws v => J.mk [("t", J.ofNat 3), ("v", J.ofNat v)]
  | .sackperm => J.mk [("t", J.ofNat 4)]
  | .sack bl => J.mk [("t", J.ofNat 5), ("v", J.arr (bl.map fun (a, b) => J.ofNats [a, b]))]
  | .ts a b => J.mk [("t", J.ofNat 8), ("v", J.ofNats [a, b])]
  | .other t val => J.mk [("t", J.ofNat t), ("v", J.ofBytes val)]

def tlvJ : Tlv → J
  | .chassis st id => J.mk [("t", J.ofNat 1), ("subtype", J.ofNat st), ("id", J.ofBytes id)]
  | .port st id => J.mk [("t", J.ofNat 2), ("subtype", J.ofNat st), ("id", J.ofBytes id)]
  | .ttl v => J.mk [("t", J.ofNat 3), ("ttl", J.ofNat v)]
  | .endT => J.mk [("t", J.ofNat 0)]
  | .caps c e => J.mk [("t", J.ofNat 7), ("caps", J.ofNat c), ("en", J.ofNat e)]
  | .mgmt ast addr ins ifn oid => J.mk [("t", J.ofNat 8), ("ast", J.ofNat ast), ("addr", J.ofBytes addr), ("ins", J.ofNat ins),
      ("ifn", J.ofNat ifn), ("oid", J.ofBytes oid)]
  | .org oui st p => J.mk [("t", J.ofNat 127), ("oui", J.ofBytes oui), ("subtype", J.ofNat st), ("payload", J.ofBytes p)]
  | .simple t p => J.mk [("t", J.ofNat t), ("payload", J.ofBytes p)]

def optBytesJ : Option Bytes → J
  | some b => J.ofBytes b
  | none => J.null

def optNatJ : Option Nat → J
  | some n => J.ofNat n
  | none => J.null

def ndOptJ : NdOpt → J
  | .lladdr t a => J.mk [("t", J.ofNat t), ("addr", J.ofBytes a)]
  | .pfx plen flags valid pref a => J.mk [("t", J.ofNat 3), ("plen", J.ofNat plen), ("onlink", J.bool ((flags / 128) % 2 = 1)),
      ("auto", J.bool ((flags / 64) % 2 = 1)), ("valid", J.ofNat valid), ("pref", J.ofNat pref), ("prefix", J.ofBytes a)]
  | .mtu v => J.mk [("t", J.ofNat 5), ("mtu", J.ofNat v)]
  | .generic t r => J.mk [("t", J.ofNat t), ("raw", J.ofBytes r)]

def bitJ (n k : Nat) : J := J.bool ((n / k) % 2 = 1)

def rrJ (r : DnsRR) : J :=
  J.arr [J.ofBytes r.name, J.ofNat r.qtype, J.ofNat r.qclass, J.ofNat r.ttl, J.ofNat r.rdlen, J.ofNat r.rdKind, J.ofBytes r.rd]

/-- (class key, whether the Python object keeps `raw`, attributes) of a phase-2 header object -/
def extJ : Ext → String × Bool × List (String × J)
  | .mpls h => ("mpls", true, [("label", J.ofNat h.label), ("tc", J.ofNat h.tc), ("s", J.ofNat h.s), ("ttl", J.ofNat h.ttl)])
  | .eapol h => ("eapol", true, [("version", J.ofNat h.version), ("type", J.ofNat h.type), ("bodylen", J.ofNat h.bodylen)])
  | .eap h => ("eap", true, [("code", J.ofNat h.code), ("id", J.ofNat h.id), ("length", J.ofNat h.length), ("type", optNatJ h.type)])
  | .vxlan v => ("vxlan", true, [("vni", optNatJ v)])
  | .rip h => ("rip", true, [("command", J.ofNat h.command), ("version", J.ofNat h.version),
      ("entries", J.arr (h.entries.map fun e => J.arr [J.ofNat e.af, J.ofNat e.tag, J.ofNat e.ip, J.ofNat e.mask, J.ofNat e.nh, J.num e.metric]))])
  | .dns h => ("dns", true, [("id", J.ofNat h.id), ("qr", bitJ h.bits0 128), ("opcode", J.ofNat ((h.bits0 / 16) % 8)), ("aa", bitJ h.bits0 4),
      ("tc", bitJ h.bits0 2), ("rd", bitJ h.bits0 1), ("ra", bitJ h.bits1 128), ("z", bitJ h.bits1 64), ("ad", bitJ h.bits1 32),
      ("cd", bitJ h.bits1 16), ("rcode", J.ofNat (h.bits1 % 16)),
      ("questions", J.arr (h.questions.map fun q => J.arr [J.ofBytes q.name, J.ofNat q.qtype, J.ofNat q.qclass])),
      ("answers", J.arr (h.answers.map rrJ)), ("authorities", J.arr (h.authorities.map rrJ)), ("additional", J.arr (h.additional.map rrJ))])
  | .ipv6 h => ("ipv6", true, [("v", J.ofNat h.v), ("tc", J.ofNat h.tc), ("flow", J.ofNat h.flow), ("payload_length", J.ofNat h.plen),
      ("nh", J.ofNat h.nh), ("hop_limit", J.ofNat h.hop), ("srcip", J.ofBytes h.src), ("dstip", J.ofBytes h.dst),
      ("ext", J.arr (h.exts.map fun (t, nh, b) => J.arr [J.ofNat t, J.ofNat nh, J.ofBytes b]))])
  | .icmp6 h => ("icmpv6", true, [("type", J.ofNat h.type), ("code", J.ofNat h.code), ("csum", J.ofNat h.csum)])
  | .echo6 h => ("echo6", true, [("id", J.ofNat h.id), ("seq", J.ofNat h.seq)])
  | .unreach6 u => ("unreach6", true, [("unused", J.ofNat u)])
  | .timeEx6 => ("TimeExceeded", true, [])
  | .tooBig6 m => ("PacketTooBig", true, [("mtu", J.ofNat m)])
  | .ndRS os => ("NDRouterSolicitation", false, [("opts", J.arr (os.map ndOptJ))])
  | .ndRA hop flags life reach retr os => ("NDRouterAdvertisement", false, [("hop_limit", J.ofNat hop), ("managed", bitJ flags 128),
      ("other", bitJ flags 64), ("lifetime", J.ofNat life), ("reachable", J.ofNat reach), ("retrans", J.ofNat retr),
      ("opts", J.arr (os.map ndOptJ))])
  | .ndNS t os => ("NDNeighborSolicitation", false, [("target", J.ofBytes t), ("opts", J.arr (os.map ndOptJ))])
  | .ndNA flags t os => ("NDNeighborAdvertisement", false, [("router", bitJ flags 128), ("solicited", bitJ flags 64),
      ("override", bitJ flags 32), ("target", J.ofBytes t), ("opts", J.arr (os.map ndOptJ))])
  | .gre h => ("gre", true, [("type", J.ofNat h.type), ("ver", J.ofNat h.ver), ("ssr", J.bool h.ssr), ("recursion", J.ofNat h.recursion),
      ("csum", optNatJ h.csum), ("route_offset", J.ofNat h.routeOffset), ("key", optNatJ h.key), ("seq", optNatJ h.seq),
      ("routing", match h.routing with
        | some rs => J.arr (rs.map fun (af, so, l, sd) => J.arr [J.ofNat af, J.ofNat so, J.ofNat l, J.ofBytes sd])
        | none => J.null)])
  | .igmp h => ("igmp", true, [("vt", J.ofNat h.vt), ("mrt", J.ofNat h.mrt), ("csum", J.ofNat h.csum), ("addr", optNatJ h.addr),
      ("groups", J.arr (h.groups.map fun g => J.arr [J.ofNat g.type, J.ofNat g.addr, J.ofNats g.srcs, J.ofBytes g.aux])),
      ("extra", J.ofBytes h.extra)])
  | .dhcp h => ("dhcp", true, [("op", J.ofNat h.op), ("htype", J.ofNat h.htype), ("hlen", J.ofNat h.hlen), ("hops", J.ofNat h.hops),
      ("xid", J.ofNat h.xid), ("secs", J.ofNat h.secs), ("flags", J.ofNat h.flags), ("ciaddr", J.ofNat h.ciaddr), ("yiaddr", J.ofNat h.yiaddr),
      ("siaddr", J.ofNat h.siaddr), ("giaddr", J.ofNat h.giaddr), ("chaddr", J.ofBytes (if h.hlen = 6 then h.chaddr.take 6 else h.chaddr)),
      ("sname", J.ofBytes h.sname), ("file", J.ofBytes h.file), ("magic", J.ofBytes h.magic),
      ("options", match h.options with
        | some os => J.arr (os.map fun (c, d) => J.arr [J.ofNat c, J.ofBytes d])
        | none => J.null)])

def layer (c : Bool) (k : String) (parsed : Bool) (raw : Option Bytes) (attrs : List (String × J)) : J :=
  J.mk ([("k", J.str k), ("parsed", J.bool parsed)] ++ (match raw with | some r => [("raw", rawJ c r)] | none => []) ++ attrs)

def chainJ (z : Bool) : Frame → List J
  | .raw b => [J.mk [("k", J.str "bytes"), ("data", rawJ z b)]]
  | .nil => [J.mk [("k", J.str "none")]]
  | .unparsed c r => [layer z c false (some r) [], J.mk [("k", J.str "none")]]
  | .foreign c r => [J.mk [("k", J.str "foreign"), ("cls", J.str c), ("raw", rawJ z r)]]
  | .eth h r n => layer z "ethernet" true (some r) [("dst", J.ofBytes h.dst), ("src", J.ofBytes h.src), ("type", J.ofNat h.type)] :: chainJ z n
  | .vlan h r n => layer z "vlan" true (some r) [("pcp", J.ofNat h.pcp), ("cfi", J.ofNat h.cfi), ("id", J.ofNat h.id),
      ("eth_type", J.ofNat h.ethType)] :: chainJ z n
  | .llc h p r n => layer z "llc" p (some r) [("dsap", J.ofOptNat h.dsap), ("ssap", J.ofOptNat h.ssap), ("control", J.ofOptNat h.control),
      ("length", J.ofNat h.length), ("oui", optBytesJ h.oui), ("eth_type", J.ofNat h.ethType)] :: chainJ z n
  | .arp h r n => layer z "arp" true (some r) [("hwtype", J.ofNat h.hwtype), ("prototype", J.ofNat h.prototype),
      ("hwlen", J.ofNat h.hwlen), ("protolen", J.ofNat h.protolen), ("opcode", J.ofNat h.opcode),
      ("hwsrc", J.ofBytes h.hwsrc), ("protosrc", J.ofNat h.protosrc), ("hwdst", J.ofBytes h.hwdst),
      ("protodst", J.ofNat h.protodst)] :: chainJ z n
  | .ipv4 h r n => layer z "ipv4" true (some r) [("v", J.ofNat h.v), ("hl", J.ofNat h.hl), ("tos", J.ofNat h.tos),
      ("iplen", J.ofNat h.iplen), ("id", J.ofNat h.id), ("flags", J.ofNat h.flags), ("frag", J.ofNat h.frag),
      ("ttl", J.ofNat h.ttl), ("protocol", J.ofNat h.proto), ("csum", J.ofNat h.csum), ("srcip", J.ofNat h.src),
      ("dstip", J.ofNat h.dst), ("raw_options", J.ofBytes h.opts)] :: chainJ z n
  | .udp h r n => layer z "udp" true (some r) [("srcport", J.ofNat h.sport), ("dstport", J.ofNat h.dport),
      ("len", J.ofNat h.len), ("csum", J.ofNat h.csum)] :: chainJ z n
  | .tcp h r n => layer z "tcp" true (some r) [("srcport", J.ofNat h.sport), ("dstport", J.ofNat h.dport),
      ("seq", J.ofNat h.seq), ("ack", J.ofNat h.ack), ("off", J.ofNat h.off), ("res", J.ofNat h.res),
      ("flags", J.ofNat h.flags), ("win", J.ofNat h.win), ("csum", J.ofNat h.csum), ("urg", J.ofNat h.urg),
      ("options", J.arr (h.opts.map optJ))] :: chainJ z n
  | .icmp h _ n => layer z "icmp" true none [("type", J.ofNat h.type), ("code", J.ofNat h.code), ("csum", J.ofNat h.csum)] :: chainJ z n
  | .echo h r n => layer z "echo" true (some r) [("id", J.ofNat h.id), ("seq", J.ofNat h.seq)] :: chainJ z n
  | .unreach h r n => layer z "unreach" true (some r) [("unused", J.ofNat h.unused), ("next_mtu", J.ofNat h.nextMtu)] :: chainJ z n
  | .timeEx h r n => layer z "time_exceeded" true (some r) [("unused", J.ofNat h.unused)] :: chainJ z n
  | .lldp ts p r => [layer z "lldp" p (some r) [("tlvs", J.arr (ts.map tlvJ))], J.mk [("k", J.str "none")]]
  | .ext x r n =>
    let (k, keeps, attrs) := extJ x
    layer z k true (if keeps then some r else none) attrs :: chainJ z n

def excJ (s : String) : J := J.mk [("exc", J.str s)]
def knownJ (e : PErr) : List (String × J) :=
  match e with
  | .known st => [("known", J.str st.name)]
  | _ => []

def answer (z : Bool) (cfg : Cfg) (d : Nat) (raw : Bytes) : J :=
  match parseEthernet cfg d raw with
  | .error e => J.mk ([("exc", J.str e.toString)] ++ knownJ e)
  | .ok f =>
    -- pack(): modelled for chains of phase-1 classes and mpls / eapol / eap behind the frame-level headers; str()/dump(): modelled for every chain without an opaque (MPTCP) layer
    let pk := if !f.packModelled then J.null else match packF none f with
      | .ok b => rawJ z b
      | .error e => excJ e.toString
    let pr := match printF cfg f with
      | .ok _ => J.str "ok"
      | .error (.unmodelled _) => J.null
      | .error e => excJ e.toString
    J.mk [("chain", J.arr (chainJ z f)), ("foreign", J.bool f.hasForeign), ("pack", pk), ("print", pr)]

def handle (j : J) : Except String J := do
  let op ← j.string "op"
  if op = "parse" then
    let raw ← j.bytes "raw"
    let cfgName ← j.string "cfg"
    -- "fix": ["K5", …] = the repairs of the registered findings that the tree under test has (harness/c15.py reads them off the source)
    let fixes : List String := match j.get? "fix" with
      | some (J.arr xs) => xs.filterMap fun x => match x with | J.str t => some t | _ => none
      | _ => []
    let has (t : String) : Bool := fixes.contains t
    let fx : Fix := ⟨has "K5", has "K6", has "K7", has "K8", has "K9", has "K10", has "K13", has "K14", has "K16", has "K1"⟩
    -- "var": ["D46", …] = the result-changing repairs of other properties that the tree has
    let vars : List String := match j.get? "var" with
      | some (J.arr xs) => xs.filterMap fun x => match x with | J.str t => some t | _ => none
      | _ => []
    let vr : Var := ⟨vars.contains "D50", vars.contains "D49", vars.contains "D48", vars.contains "D46"⟩
    let cfg ← if cfgName = "repaired" then pure (Cfg.tree fx vr) else if cfgName = "head" then pure Cfg.head
              else if cfgName = "core" then pure Cfg.core else throw s!"unknown cfg {cfgName}"
    let d := match ← j.optNat "d" with
      | some d => d
      | none => budget raw
    let z : Bool := match j.get? "compact" with
      | some (J.bool true) => true
      | _ => false
    let a := answer z cfg d raw
    -- "core": true → also the answer of the phase-1 model (`Cfg.core`, the one `refines_c14` relates to C14's parser)
    match j.get? "core" with
    | some (J.bool true) =>
      match a with
      | J.obj kv => pure (J.obj (kv ++ [("core", answer z { Cfg.core with fix := { Fix.none with k1 := fx.k1 } } d raw)]))
      | other => pure other
    | _ => pure a
  else throw s!"unknown op {op}"

def main : IO Unit := serve handle
