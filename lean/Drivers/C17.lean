import PoxModel.Base.Proto
import PoxModel.Model.StatsAgg
open Pox Pox.Proto Pox.Spec17 Pox.PortView Pox.StatsAgg

/-! Driver for C17.  One request = one connection history.

request  {"q":{"nos":[n…],"names":[n…],"hws":[n…]},
          "msgs":[ {"t":"features","ports":[[no,name,hw,rest]…]} | {"t":"status","reason":r,"port":[no,name,hw,rest]}
                 | {"t":"stats","xid":x,"type":y,"more":bool,"body":[id…]} | {"t":"other"} ,
                   each optionally with "seen":{"name":[no|null…],"hw":[…],"oname":[…],"ohw":[…]} ]}
A message carrying "seen" asks for a snapshot of every view of `con.ports` / `con.original_ports` after it; "seen" lists, for
each queried name / address, the number of the port the implementation returned (the iteration order of a Python set is not
modelled: when several ports carry the attribute the model accepts any of them and otherwise answers with its own first).
Optional "hs":[{"t":"features",…}|{"t":"status",…}…] are the messages of the handshake phase (run through `hsStep`; the
connection comes up with `hsFinish`), "seen0" asks for a snapshot right after the handshake, "copy":true adds the views of
`ports.copy()` to every snapshot; "seen_up" / "seen_replay":[…] ask for the view at ConnectionUp ("up_snap") and at each
replayed PortStatus event ("replay_snaps").  "raws" in the response is the RawStatsReply raised per message ([xid,type,more] or null).
response {"outs":[null | {"type","stats","xids"} | {"raised":…} per message], "snaps":[…per message with "seen"…]} -/

def portOf (j : J) : Except String Port := do
  match ← j.asNats with
  | [a, b, c, d] => pure ⟨a, b, c, d⟩
  | _ => .error "port = [no,name,hw,rest]"

def jPort (p : Port) : J := J.ofNats [p.no, p.name, p.hw, p.rest]
def jOptPort : Option Port → J
  | some p => jPort p
  | none => J.str "IndexError"

def optNats (j : J) : Except String (List (Option Nat)) := do
  (← j.asArr).mapM fun x => if x.isNull then pure none else do pure (some (← x.asNat))

/-- the implementation's choice if it is one of the admissible results, else the model's own -/
def resolve (ch : List PC) (key : Key) (seen : Option Nat) : Option Port :=
  match candidatesC ch key, seen with
  | some cs, some n =>
    match cs.find? (fun p => p.no == n) with
    | some p => some p
    | none => getItemC ch key
  | _, _ => getItemC ch key

def zipSeen (keys : List Nat) (seen : List (Option Nat)) : Except String (List (Nat × Option Nat)) :=
  if keys.length = seen.length then pure (keys.zip seen) else .error "seen: wrong length"

def snapChain (ch : List PC) (nos names hws : List Nat) (sName sHw : List (Option Nat)) (pre : String) :
    Except String (List (String × J)) := do
  let zn ← zipSeen names sName
  let zh ← zipSeen hws sHw
  let vals := match valuesC ch with
    | some vs => J.arr ((vs.mergeSort (fun a b => a.no ≤ b.no)).map jPort)
    | none => J.str "IndexError"
  let items := match itemsC ch with
    | some kv => J.arr ((kv.mergeSort (fun a b => a.1 ≤ b.1)).map fun (k, p) => J.arr [J.ofNat k, jPort p])
    | none => J.str "IndexError"
  pure [(pre ++ "keys", J.ofNats ((keysC ch).mergeSort (· ≤ ·))), (pre ++ "len", J.ofNat (lenC ch)),
        (pre ++ "no", J.arr (nos.map fun k => jOptPort (getItemC ch (.no k)))),
        (pre ++ "in_no", J.arr (nos.map fun k => J.bool (containsC ch (.no k)))),
        (pre ++ "name", J.arr (zn.map fun (s, c) => jOptPort (resolve ch (.name s) c))),
        (pre ++ "in_name", J.arr (names.map fun s => J.bool (containsC ch (.name s)))),
        (pre ++ "hw", J.arr (zh.map fun (a, c) => jOptPort (resolve ch (.hw a) c))),
        (pre ++ "in_hw", J.arr (hws.map fun a => J.bool (containsC ch (.hw a)))),
        (pre ++ "values", vals), (pre ++ "items", items)]

def snapCopy (ch : List PC) (nos : List Nat) : List (String × J) :=
  match copyC ch with
  | none => [("copy", J.str "IndexError")]
  | some c =>
    [("copy", J.mk [("keys", J.ofNats ((keysC [c]).mergeSort (· ≤ ·))), ("len", J.ofNat (lenC [c])),
                    ("no", J.arr (nos.map fun k => jOptPort (getItemC [c] (.no k)))),
                    ("masks", J.ofNats c.masks),
                    ("values", match valuesC [c] with
                      | some vs => J.arr ((vs.mergeSort (fun a b => a.no ≤ b.no)).map jPort)
                      | none => J.str "IndexError")])]

def snap (v : View) (q seen : J) (withCopy : Bool) : Except String J := do
  let nos ← q.nats "nos"
  let names ← q.nats "names"
  let hws ← q.nats "hws"
  let a ← snapChain v.chain nos names hws (← optNats (← seen.get "name")) (← optNats (← seen.get "hw")) ""
  let b ← snapChain v.origChain nos names hws (← optNats (← seen.get "oname")) (← optNats (← seen.get "ohw")) "o"
  let dflt : Port := ⟨0, 0, 0, 0⟩
  let g := [("get", J.arr (nos.map fun k => jOptPort (getC v.chain (.no k) none))),
            ("get_dflt", J.arr (nos.map fun k => jOptPort (getC v.chain (.no k) (some dflt)))),
            ("has_key", J.arr (nos.map fun k => J.bool (hasKeyC v.chain (.no k))))]
  pure (J.mk (a ++ b ++ g ++ (if withCopy then snapCopy v.chain nos else [])))

def hmsgOf (j : J) : Except String HMsg := do
  match ← j.string "t" with
  | "features" => pure (.features (← (← j.array "ports").mapM portOf))
  | "status" => pure (.status (← j.nat "reason") (← portOf (← j.get "port")))
  | t => .error s!"unknown handshake message kind {t}"

def jRaw : Option Part → J
  | some p => J.arr [J.ofNat p.xid, J.ofNat p.type, J.bool p.more]
  | none => J.null

def msgOf (j : J) : Except String Msg := do
  match ← j.string "t" with
  | "features" => pure (.port (.features (← (← j.array "ports").mapM portOf)))
  | "status" => pure (.port (.status (← j.nat "reason") (← portOf (← j.get "port"))))
  | "stats" => pure (.stats ⟨← j.nat "xid", ← j.nat "type", ← j.boolean "more", ← j.nats "body"⟩)
  | "other" => pure .other
  | t => .error s!"unknown message kind {t}"

def jOut : Out → J
  | .quiet => J.null
  | .event e => J.mk [("type", J.ofNat e.type), ("stats", J.ofNats e.stats), ("xids", J.ofNats e.xids)]
  | .raised .indexError => J.mk [("raised", J.str "IndexError")]
  | .raised .attributeError => J.mk [("raised", J.str "AttributeError")]

def handle (j : J) : Except String J := do
  let q ← j.get "q"
  let msgs ← j.array "msgs"
  let withCopy := match j.get? "copy" with
    | some (J.bool b) => b
    | _ => false
  let mut c := Conn.init
  let mut outs : List J := []
  let mut raws : List J := []
  let mut snaps : List J := []
  let mut extra : List (String × J) := []
  match j.get? "hs" with
  | some hs =>
    let mut hc := HConn.init
    for hj in ← hs.asArr do
      hc := hsStep hc (← hmsgOf hj)
    -- the view at ConnectionUp / FeaturesReceived, and at each replayed PortStatus event
    match j.get? "seen_up" with
    | some su => extra := extra ++ [("up_snap", ← snap (hsUpView hc) q su withCopy)]
    | none => pure ()
    match j.get? "seen_replay" with
    | some sr =>
      let srs ← sr.asArr
      let vs := hsReplayViews hc
      if srs.length ≠ vs.length then
        extra := extra ++ [("replay_snaps", J.str s!"{vs.length} replayed statuses")]
      else
        extra := extra ++ [("replay_snaps", J.arr (← (vs.zip srs).mapM fun (v, se) => snap v q se withCopy))]
    | none => pure ()
    c := { c with view := hsFinish hc }
  | none => pure ()
  match j.get? "seen0" with
  | some s => snaps := snaps ++ [← snap c.view q s withCopy]
  | none => pure ()
  -- "levels":true — every message may carry "halt":[raw,agg,port] (what the nexus-level listeners answered: `Halts`); the
  -- response then has the nexus-level events in "outs"/"raws" and the connection-level ones in "outs_con"/"raws_con", and
  -- "pev":[on the nexus, on the connection] = the PortStatus / FeaturesReceived events of each message (`deliverL`)
  let levels := match j.get? "levels" with
    | some (J.bool b) => b
    | _ => false
  let mut outsCon : List J := []
  let mut rawsCon : List J := []
  let mut pev : List J := []
  for mj in msgs do
    let m ← msgOf mj
    if levels then
      let h : Halts ← match mj.get? "halt" with
        | some hj => do
          match ← hj.asArr with
          | [J.bool a, J.bool b, J.bool d] => pure (⟨a, b, d⟩ : Halts)
          | _ => throw "halt = [raw,agg,port] (booleans)"
        | none => pure ⟨false, false, false⟩
      let r := deliverL c h m
      c := r.1
      outs := outs ++ [jOut r.2.outNexus]
      raws := raws ++ [jRaw r.2.rawNexus]
      outsCon := outsCon ++ [jOut r.2.outCon]
      rawsCon := rawsCon ++ [jRaw r.2.rawCon]
      pev := pev ++ [J.ofNats [if r.2.portNexus then 1 else 0, if r.2.portCon then 1 else 0]]
    else
      let r := deliver c m
      c := r.1
      outs := outs ++ [jOut r.2.out]
      raws := raws ++ [jRaw r.2.raw]
    match mj.get? "seen" with
    | some s => snaps := snaps ++ [← snap c.view q s withCopy]
    | none => pure ()
  let lv := if levels then [("outs_con", J.arr outsCon), ("raws_con", J.arr rawsCon), ("pev", J.arr pev)] else []
  pure (J.mk ([("outs", J.arr outs), ("raws", J.arr raws), ("snaps", J.arr snaps)] ++ lv ++ extra))

def main : IO Unit := serve handle
