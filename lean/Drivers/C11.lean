import PoxModel.Base.Proto
import PoxModel.Model.L2
open Pox Pox.Proto Pox.L2

def flowJ (fl : Flow) : J :=
  J.ofNats [fl.inPort.getD 0, fl.m.src, fl.m.dst, fl.m.etype, fl.m.key, fl.out.getD 0, fl.idle, fl.hard, fl.created, fl.touched,
            if fl.effPrio > 0xffff then 1 else 0]

def tableJ (s : Sw) : J := J.arr (s.table.map flowJ)

def arrivalJ (x : Frame) (a : Arrival) : J :=
  J.mk [("sw", J.ofNat a.sw), ("port", J.ofNat a.port),
        ("pin", J.ofNat (a.evs.filter (· = Ev.packetIn)).length),
        ("stuck", J.ofNat (a.evs.filter (· = Ev.stuck)).length),
        ("out", J.arr ((deliveries a.evs).map fun (p, y) => J.ofNats [p, if y = x then 1 else 0])),
        ("flows", tableJ a.after),
        ("bufs", J.ofNats (a.after.pool.slots.map fun o => if o.isSome then 1 else 0))]

def parseFrame (exactSig : Bool) (j : J) : Except String Frame := do
  pure { src := ← j.nat "src", dst := ← j.nat "dst", etype := ← j.nat "etype", key := ← j.nat "key",
         full := frameFull exactSig ((← j.nat "l4") != 0), pay := ← j.nat "pay" }

def parseLink (j : J) : Except String ((Nat × Nat) × (Nat × Nat)) := do
  match ← j.asNats with
  | [a, pa, b, pb] => pure ((a, pa), (b, pb))
  | _ => throw "link: four numbers expected"

def stepNet (exactSig : Bool) (n : Net) (j : J) : Except String (Net × J) := do
  let k ← j.string "op"
  if k = "adv" then
    pure ((netStep 66 n (.adv (← j.nat "ms"))).1, J.mk [("k", J.str "adv")])
  else if k = "sweep" then
    let i ← j.nat "sw"
    let (n', _, _) := netStep 66 n (.sweep i)
    match n'.sws[i]? with
    | none => throw "sweep: no such switch"
    | some s' => pure (n', J.mk [("k", J.str "sweep"), ("flows", tableJ s')])
  else if k = "rx" then
    let x ← parseFrame exactSig j
    let i ← j.nat "sw"
    if i ≥ n.sws.length then throw "rx: no such switch"
    let (n', log, ok) := netStep 66 n (.rx i (← j.nat "port") x)
    if !ok then throw "frame circulates"
    pure (n', J.mk [("k", J.str "rx"), ("arr", J.arr (log.map (arrivalJ x)))])
  else throw s!"unknown op {k}"

def runNet (exactSig : Bool) (n : Net) : List J → Except String (List J)
  | [] => pure []
  | j :: js => do
    let (n', o) ← stepNet exactSig n j
    let os ← runNet exactSig n' js
    pure (o :: os)

/-- request {"transparent":b,"t0":ms,"switches":[{"ports":n,"bufs":k}…],"links":[[a,pa,b,pb]…],"ops":[…]} → {"steps":[…]} -/
def handle (j : J) : Except String J := do
  let tr ← j.boolean "transparent"
  let rl ← j.boolean "relearn"          -- does the tree under test carry repair C11-K1 (found by the harness reading l2_learning.py)
  let dip ← j.boolean "dropinport"
  let sws ← (← j.array "switches").mapM fun s => do pure (init (← s.nat "ports") (← s.nat "bufs") tr rl dip)
  let links ← (← j.array "links").mapM parseLink
  let ex ← j.boolean "exactsig"          -- does the tree rank prerequisite-less wildcards as exact (repair D26; read by the harness)
  let steps ← runNet ex { sws := sws, links := links, now := ← j.nat "t0" } (← j.array "ops")
  pure (J.mk [("steps", J.arr steps)])

def main : IO Unit := serve handle
