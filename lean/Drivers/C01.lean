import PoxModel.Base.Proto
import PoxModel.Model.CodecOF
import PoxModel.Model.CodecMatch
import PoxModel.Model.CodecNXM
import PoxModel.Model.CodecNX
open Pox Pox.Proto Pox.Layout Pox.CodecOF

/-! Line-protocol driver for C01.  Requests:
  {"op":"codec","cls":C,"rec":R,"avail":bool,"trailer":hex}  – encode R with the generated pack layout (and with the Spec
        layout of C, if any), decode the result followed by `trailer` with the generated unpack layout
  {"op":"decode","cls":C,"bytes":hex,"avail":n|null}         – decode only
  {"op":"packet_out","rec":{...},"trailer":hex}              – hand model of ofp_packet_out
  {"op":"match", ...} / {"op":"nxm", ...}                     – hand models (Model/CodecMatch, Model/CodecNXM)
where R = {"vals":{field:number|hex,...},"tail":null|hex|[{"cls":C',"vals":..,"tail":..},...]}. -/

def valsFromJ : List Field → J → Except String (List Val)
  | [], _ => pure []
  | .uint nm _ :: L, j => do let v ← j.nat nm; let r ← valsFromJ L j; pure (.num v :: r)
  | .blob nm _ :: L, j => do let v ← j.bytes nm; let r ← valsFromJ L j; pure (.raw v :: r)
  | .zstr nm _ :: L, j => do let v ← j.bytes nm; let r ← valsFromJ L j; pure (.raw v :: r)
  | _ :: L, j => valsFromJ L j

def tailKind (L : Layout) (j : J) : Except String (Option Bytes × List J) :=
  match L.tail with
  | .none => pure (none, [])
  | .rest _ => do let b ← j.bytes "tail"; pure (some b, [])
  | .list _ _ => do let items ← j.array "tail"; pure (none, items)

def recFromJ : (n : Nat) → Layout → J → Except String (Rec (Elem n))
  | 0, L, j => do
    let vals ← valsFromJ L.fixed (← j.get "vals")
    let (b, items) ← tailKind L j
    match L.tail with
    | .none => pure ⟨vals, .none⟩
    | .rest _ => pure ⟨vals, .rest (match b with | some b => b | none => [])⟩
    | .list _ _ => if items.isEmpty then pure ⟨vals, .items []⟩ else throw "nesting deeper than the driver's depth"
  | n + 1, L, j => do
    let vals ← valsFromJ L.fixed (← j.get "vals")
    let (b, items) ← tailKind L j
    match L.tail with
    | .none => pure ⟨vals, .none⟩
    | .rest _ => pure ⟨vals, .rest (match b with | some b => b | none => [])⟩
    | .list _ _ => do
      let xs : List (Elem (n + 1)) ← items.mapM fun it => do
        let c ← it.string "cls"
        match env.layout c with
        | none => throw s!"unknown element class {c}"
        | some L' => do
          let r ← recFromJ n L' it
          pure ((c, r) : String × Rec (Elem n))
      pure ⟨vals, .items xs⟩

def valsToJ : List Field → List Val → List (String × J)
  | .uint nm _ :: L, .num v :: vs => (nm, J.ofNat v) :: valsToJ L vs
  | .blob nm _ :: L, .raw v :: vs => (nm, J.ofBytes v) :: valsToJ L vs
  | .zstr nm _ :: L, .raw v :: vs => (nm, J.ofBytes v) :: valsToJ L vs
  | .uint _ _ :: _, _ => [("error", J.str "shape")]
  | .blob _ _ :: _, _ => [("error", J.str "shape")]
  | .zstr _ _ :: _, _ => [("error", J.str "shape")]
  | _ :: L, vs => valsToJ L vs
  | [], _ => []

def recToJ : (n : Nat) → Layout → Rec (Elem n) → J
  | 0, L, r =>
    let vals := J.mk (valsToJ L.fixed r.vals)
    match r.tail with
    | .none => J.mk [("vals", vals), ("tail", J.null)]
    | .rest b => J.mk [("vals", vals), ("tail", J.ofBytes b)]
    | .items _ => J.mk [("vals", vals), ("tail", J.arr [])]
  | n + 1, L, r =>
    let vals := J.mk (valsToJ L.fixed r.vals)
    match r.tail with
    | .none => J.mk [("vals", vals), ("tail", J.null)]
    | .rest b => J.mk [("vals", vals), ("tail", J.ofBytes b)]
    | .items xs =>
      let js := xs.map fun (e : String × Rec (Elem n)) =>
        match env.layout e.1 with
        | some L' =>
          match recToJ n L' e.2 with
          | J.obj kv => J.obj (("cls", J.str e.1) :: kv)
          | other => other
        | none => J.mk [("cls", J.str e.1), ("error", J.str "unknown class")]
      J.mk [("vals", vals), ("tail", J.arr js)]

def optBytes : Option Bytes → J
  | some b => J.ofBytes b
  | none => J.null

def lenValue (e : LenExpr) (t : Option Bytes) (r : Rec (Elem depth)) : J :=
  match e.tail, t, r.tail with
  | .none, _, _ => J.ofNat e.base
  | .bytes, some t, _ => J.ofNat (e.base + t.length)
  | .sum, some t, _ => J.ofNat (e.base + t.length)
  | .count k, _, .items xs => J.ofNat (e.base + xs.length * k)
  | _, _, _ => J.null

def handleCodec (j : J) : Except String J := do
  let c ← j.string "cls"
  let ci ← match cls c with
    | some ci => pure ci
    | none => throw s!"class {c} is not translated"
  let r ← recFromJ depth ci.packL (← j.get "rec")
  let trailer ← j.bytes "trailer"
  let useAvail ← j.boolean "avail"
  let packed := encode codec ci.packL r
  let spec := match Spec.OF10.table.lookup c with
    | some L => (match recFromJ depth L (match j.get "rec" with | .ok x => x | .error _ => J.null) with
                 | .ok rs => optBytes (encode codec L rs)
                 | .error e => J.str ("spec layout does not take this record: " ++ e))
    | none => J.str "no-spec"
  let tailBytes := encTail codec ci.packL.tail r.tail
  let dec := match packed with
    | none => J.null
    | some bs =>
      match decode codec ci.unpackL (if useAvail then some bs.length else none) (bs ++ trailer) with
      | none => J.str "decode-failed"
      | some (r', rest) => J.mk [("rec", recToJ depth ci.unpackL r'), ("rest", J.ofBytes rest)]
  let hdr := match packed with
    | some bs => (match hdrLen ci.packL bs with | some n => J.ofNat n | none => J.null)
    | none => J.null
  pure (J.mk [("pack", optBytes packed), ("spec", spec), ("dec", dec), ("hdr", hdr), ("len", lenValue ci.lenL tailBytes r),
              ("flags", J.arr (ci.flags.map J.str))])

/-- {"op":"spec","cls":C,"rec":R}: R encoded with the layout the standard gives class C (independent of the generated
    layout of C itself; nested elements use the generated element codecs) -/
def handleSpec (j : J) : Except String J := do
  let c ← j.string "cls"
  match Spec.OF10.table.lookup c with
  | none => pure (J.mk [("spec", J.str "no-spec")])
  | some L =>
    match recFromJ depth L (← j.get "rec") with
    | .ok rs => pure (J.mk [("spec", optBytes (encode codec L rs))])
    | .error e => pure (J.mk [("spec", J.str ("spec layout does not take this record: " ++ e))])

def handleDecode (j : J) : Except String J := do
  let c ← j.string "cls"
  let ci ← match cls c with
    | some ci => pure ci
    | none => throw s!"class {c} is not translated"
  let bs ← j.bytes "bytes"
  let avail ← j.optNat "avail"
  match decode codec ci.unpackL avail bs with
  | none => pure (J.mk [("dec", J.null)])
  | some (r, rest) => pure (J.mk [("dec", recToJ depth ci.unpackL r), ("rest", J.ofBytes rest)])

def actionsLayout : Layout := ⟨[], .list "actions" "actions"⟩

def handlePacketOut (j : J) : Except String J := do
  let rj ← j.get "rec"
  let v ← rj.get "vals"
  let acts ← recFromJ depth actionsLayout (J.mk [("vals", J.mk []), ("tail", ← rj.get "actions")])
  let xs := match acts.tail with | .items xs => xs | _ => []
  let p : PacketOut (Elem depth) :=
    ⟨← v.nat "version", ← v.nat "header_type", ← v.nat "xid", ← v.nat "buffer_id", ← v.nat "in_port", xs, ← rj.bytes "data"⟩
  let trailer ← j.bytes "trailer"
  let packed := encPacketOut codec p
  let dec := match packed with
    | none => J.null
    | some bs =>
      match decPacketOut codec (bs ++ trailer) with
      | none => J.str "decode-failed"
      | some (q, rest) =>
        let aj := match recToJ depth actionsLayout ⟨[], .items q.actions⟩ with
          | J.obj kv => (match kv.find? (·.1 = "tail") with | some (_, t) => t | none => J.null)
          | _ => J.null
        J.mk [("rec", J.mk [("vals", J.mk [("version", J.ofNat q.version), ("header_type", J.ofNat q.header_type),
                ("xid", J.ofNat q.xid), ("buffer_id", J.ofNat q.buffer_id), ("in_port", J.ofNat q.in_port)]),
                ("actions", aj), ("data", J.ofBytes q.data)]), ("rest", J.ofBytes rest)]
  pure (J.mk [("pack", optBytes packed), ("dec", dec),
              ("hdr", match packed with | some bs => J.ofNat (beDec ((bs.drop 2).take 2)) | none => J.null),
              ("len", match packed with | some bs => J.ofNat (16 + (bs.length - 16)) | none => J.null)])

open Pox.CodecMatch in
def matchFromJ (j : J) : Except String M := do
  pure ⟨W.ofNat (← j.nat "wildcards"), ← j.nat "in_port", ← j.nat "dl_src", ← j.nat "dl_dst", ← j.nat "dl_vlan",
        ← j.nat "dl_vlan_pcp", ← j.nat "dl_type", ← j.nat "nw_tos", ← j.nat "nw_proto", ← j.nat "nw_src", ← j.nat "nw_dst",
        ← j.nat "tp_src", ← j.nat "tp_dst"⟩

open Pox.CodecMatch in
def matchToJ (m : M) : J :=
  J.mk [("wildcards", J.ofNat m.w.toNat), ("in_port", J.ofNat m.in_port), ("dl_src", J.ofNat m.dl_src),
        ("dl_dst", J.ofNat m.dl_dst), ("dl_vlan", J.ofNat m.dl_vlan), ("dl_vlan_pcp", J.ofNat m.dl_vlan_pcp),
        ("dl_type", J.ofNat m.dl_type), ("nw_tos", J.ofNat m.nw_tos), ("nw_proto", J.ofNat m.nw_proto),
        ("nw_src", J.ofNat m.nw_src), ("nw_dst", J.ofNat m.nw_dst), ("tp_src", J.ofNat m.tp_src), ("tp_dst", J.ofNat m.tp_dst)]

/-- {"op":"match","state":{wildcards,in_port,…},"flow_mod":bool,"trailer":hex} -/
def handleMatch (j : J) : Except String J := do
  let m ← matchFromJ (← j.get "state")
  let fm ← j.boolean "flow_mod"
  let trailer ← j.bytes "trailer"
  match Pox.CodecMatch.pack fm m with
  | none => pure (J.mk [("pack", J.null)])
  | some bs =>
    match Pox.CodecMatch.unpack fm (bs ++ trailer) with
    | none => pure (J.mk [("pack", J.ofBytes bs), ("state2", J.null)])
    | some (m2, rest) =>
      pure (J.mk [("pack", J.ofBytes bs), ("state2", matchToJ m2), ("consumed", J.ofNat ((bs ++ trailer).length - rest.length)),
                  ("normal", J.bool (decide (Pox.CodecMatch.Normal m))), ("eqv", J.bool (decide (Pox.CodecMatch.Eqv m2 m))),
                  ("eqv_fixed", J.bool (decide (Pox.CodecMatch.Eqv m2 (Pox.CodecMatch.fix m))))])

def optBytesJ (j : J) (k : String) : Except String (Option Bytes) :=
  match j.get? k with
  | none => pure none
  | some J.null => pure none
  | some v => do pure (some (← v.asBytes))

/-- {"op":"nxm","entries":[{"type","len","value","mask","force"}…],"trailer":hex}: nx_match.pack then nx_match.unpack -/
def handleNxm (j : J) : Except String J := do
  let es ← (← j.array "entries").mapM fun e => do
    let ent : Pox.CodecNXM.Entry := ⟨← e.nat "type", ← e.bytes "value", ← optBytesJ e "mask", ← e.boolean "force"⟩
    pure ((← e.nat "len"), ent)
  let trailer ← j.bytes "trailer"
  match Pox.CodecNXM.encMatch es with
  | none => pure (J.mk [("pack", J.null)])
  | some bs =>
    match Pox.CodecNXM.decMatch bs with
    | none => pure (J.mk [("pack", J.ofBytes bs), ("entries", J.null)])
    | some ds =>
      let _ := trailer
      pure (J.mk [("pack", J.ofBytes bs), ("consumed", J.ofNat bs.length),
                  ("entries", J.arr (ds.map fun d => J.arr [J.ofNat d.type, J.ofBytes d.value,
                     (match d.mask with | some m => J.ofBytes m | none => J.null)]))])

def entriesFromJ (j : J) : Except String (List Pox.CodecNXM.Entry) := do
  (← j.asArr).mapM fun e => do
    pure (⟨← e.nat "type", ← e.bytes "value", ← optBytesJ e "mask", ← e.boolean "force"⟩ : Pox.CodecNXM.Entry)

def entriesToJ (es : List Pox.CodecNXM.Entry) : J :=
  J.arr (es.map fun d => J.arr [J.ofNat d.type, J.ofBytes d.value, (match d.mask with | some m => J.ofBytes m | none => J.null)])

def actionsToJ (xs : List (Elem depth)) : J :=
  match recToJ depth actionsLayout ⟨[], .items xs⟩ with
  | J.obj kv => (match kv.find? (·.1 = "tail") with | some (_, t) => t | none => J.null)
  | _ => J.null

open Pox.CodecNX in
/-- {"op":"nx_flow_mod","vals":{…},"match":[entries],"actions":[…],"trailer":hex} -/
def handleNxFlowMod (j : J) : Except String J := do
  let v ← j.get "vals"
  let acts ← recFromJ depth actionsLayout (J.mk [("vals", J.mk []), ("tail", ← j.get "actions")])
  let xs := match acts.tail with | .items xs => xs | _ => []
  let m : NxFlowMod (Elem depth) :=
    ⟨← v.nat "version", ← v.nat "header_type", ← v.nat "xid", ← v.nat "vendor", ← v.nat "subtype", ← v.nat "cookie",
     ← v.nat "command", ← v.nat "table_id", ← v.nat "idle_timeout", ← v.nat "hard_timeout", ← v.nat "priority",
     ← v.nat "buffer_id", ← v.nat "out_port", ← v.nat "flags", ← entriesFromJ (← j.get "match"), xs⟩
  let trailer ← j.bytes "trailer"
  match encNxFlowMod codec m with
  | none => pure (J.mk [("pack", J.null)])
  | some bs =>
    let hdr := match hdrLen nxfmL bs with | some n => J.ofNat n | none => J.null
    match decNxFlowMod codec (bs ++ trailer) with
    | none => pure (J.mk [("pack", J.ofBytes bs), ("hdr", hdr), ("dec", J.str "decode-failed")])
    | some (q, rest) =>
      pure (J.mk [("pack", J.ofBytes bs), ("hdr", hdr), ("len", J.ofNat bs.length),
        ("dec", J.mk [("command", J.ofNat q.command), ("table_id", J.ofNat q.table_id), ("cookie", J.ofNat q.cookie),
                      ("buffer_id", J.ofNat q.buffer_id), ("flags", J.ofNat q.flags), ("match", entriesToJ q.match_),
                      ("actions", actionsToJ q.actions), ("rest", J.ofBytes rest)])])

open Pox.CodecNX in
/-- {"op":"nxt_packet_in","vals":{…},"match":[entries],"data":hex,"trailer":hex} -/
def handleNxPacketIn (j : J) : Except String J := do
  let v ← j.get "vals"
  let p : NxPacketIn :=
    ⟨← v.nat "version", ← v.nat "header_type", ← v.nat "xid", ← v.nat "vendor", ← v.nat "subtype", ← v.nat "buffer_id",
     ← v.nat "total_len", ← v.nat "reason", ← v.nat "table_id", ← v.nat "cookie", ← entriesFromJ (← j.get "match"),
     ← j.bytes "data"⟩
  let trailer ← j.bytes "trailer"
  match encNxPacketIn p with
  | none => pure (J.mk [("pack", J.null)])
  | some bs =>
    let hdr := match hdrLen nxpiL bs with | some n => J.ofNat n | none => J.null
    match decNxPacketIn (bs ++ trailer) with
    | none => pure (J.mk [("pack", J.ofBytes bs), ("hdr", hdr), ("dec", J.str "decode-failed")])
    | some (q, rest) =>
      pure (J.mk [("pack", J.ofBytes bs), ("hdr", hdr), ("len", J.ofNat bs.length),
        ("dec", J.mk [("buffer_id", J.ofNat q.buffer_id), ("total_len", J.ofNat q.total_len), ("reason", J.ofNat q.reason),
                      ("table_id", J.ofNat q.table_id), ("cookie", J.ofNat q.cookie), ("match", entriesToJ q.match_),
                      ("data", J.ofBytes q.data), ("rest", J.ofBytes rest)])])

/-- {"op":"fm_data","rec":<ofp_flow_mod record>,"data":null|{"buffer_id","in_port","total_len","data"},"xb","xp"}:
    the messages `ofp_flow_mod.pack()` returns when `data` is a packet-in (`CodecOF.fmPack`) -/
def handleFmData (j : J) : Except String J := do
  let rj ← j.get "rec"
  let v ← rj.get "vals"
  let acts ← recFromJ depth actionsLayout (J.mk [("vals", J.mk []), ("tail", ← rj.get "tail")])
  let xs := match acts.tail with | .items xs => xs | _ => []
  let f : FlowMod (Elem depth) :=
    ⟨← v.nat "version", ← v.nat "header_type", ← v.nat "xid", ← v.bytes "match", ← v.nat "cookie", ← v.nat "command",
     ← v.nat "idle_timeout", ← v.nat "hard_timeout", ← v.nat "priority", ← v.nat "buffer_id", ← v.nat "out_port",
     ← v.nat "flags", xs⟩
  let d ← match j.get? "data" with
    | none => pure none
    | some J.null => pure none
    | some dj => do
      let pd : PacketInData := ⟨← dj.nat "buffer_id", ← dj.nat "in_port", ← dj.nat "total_len", ← dj.bytes "data"⟩
      pure (some pd)
  match fmPack codec (outTable 2) f d (← j.nat "xb") (← j.nat "xp") with
  | none => pure (J.mk [("msgs", J.null)])
  | some ms => pure (J.mk [("msgs", J.arr (ms.map J.ofBytes))])

/-- {"op":"stats","reply":bool,"rec":{"vals":{…,"type":t,…},"tail":[entries…] | hex},"trailer":hex}: `encStats`, then
    `decStats` (raw read, type lookup, entry loop) and, for single-body kinds, `decBody` of the registered body class -/
def handleStats (j : J) : Except String J := do
  let reply ← j.boolean "reply"
  let rj ← j.get "rec"
  let t ← (← rj.get "vals").nat "type"
  let L := statsLayout reply t
  let r ← recFromJ depth L rj
  let trailer ← j.bytes "trailer"
  match encStats codec reply r with
  | none => pure (J.mk [("pack", J.null)])
  | some bs =>
    let hdr := match hdrLen L bs with | some n => J.ofNat n | none => J.null
    match decStats codec reply (bs ++ trailer) with
    | none => pure (J.mk [("pack", J.ofBytes bs), ("hdr", hdr), ("dec", J.str "decode-failed")])
    | some (r', rest) =>
      let t' := match statsType r'.vals with | some x => x | none => t
      let L' := statsLayout reply t'
      let body := match (if reply then replyKind t' else requestKind t'), r'.tail with
        | .single c, .rest b =>
          (match env.layout c with
           | some Lc => (match decBody codec Lc b with
                         | some (rb, left) => J.mk [("cls", J.str c), ("rec", recToJ depth Lc rb), ("left", J.ofBytes left)]
                         | none => J.str "body-decode-failed")
           | none => J.str "untranslated-body-class")
        | _, _ => J.null
      pure (J.mk [("pack", J.ofBytes bs), ("hdr", hdr), ("len", J.ofNat bs.length),
                  ("dec", J.mk [("rec", recToJ depth L' r'), ("rest", J.ofBytes rest)]), ("body", body)])

def handle (j : J) : Except String J := do
  let op ← j.string "op"
  if op = "codec" then handleCodec j
  else if op = "decode" then handleDecode j
  else if op = "spec" then handleSpec j
  else if op = "packet_out" then handlePacketOut j
  else if op = "stats" then handleStats j
  else if op = "fm_data" then handleFmData j
  else if op = "nx_flow_mod" then handleNxFlowMod j
  else if op = "nxt_packet_in" then handleNxPacketIn j
  else if op = "match" then handleMatch j
  else if op = "nxm" then handleNxm j
  else throw s!"unknown op {op}"

def main : IO Unit := serve handle
