import PoxModel.Base.Proto
import PoxModel.Model.Recoco
open Pox Pox.Proto Pox.Recoco

/-! Line-protocol driver of the recoco scheduler model (C06).

request  {"t0":T,"budget":N,"progs":[[y,…],…],"tasks":[k,…],"timers":[[delay,recurring,selfStop,falseAt|null],…],
          "r":[T|null,…],"w":[…],"x":[…],"send":[n|null,…],"recv":[n|null,…],"fix_send":bool,"fix_empty_sub":bool}
  y ::= ["num",n] | ["block"] | ["sleep",d|null] | ["sleepabs",w] | ["select",r|null,w|null,x|null,to|null]
      | ["recv",fd,to|null] | ["send",fd,len,to|null,bs] | ["exit"] | ["raise",n] | ["again",k,catch] | ["cancel",j]
  + "prios":[p,…] (task priorities in 1/8; missing = 8), "draws":[d,…] (scripted Scheduler._random results in 1/8)
response {"trace":[["s",tid,idx,time,recv,wake,raw] | ["f",tid,n,time] …],"quit","crashed","cycles","now","ready","incoming","hub"}
  (step events of timer tasks are not reported: the real `Timer` generator is not instrumented) -/

def optNatJ : J → Except String (Option Nat)
  | .null => pure none
  | v => do pure (some (← v.asNat))

def fdsJ : J → Except String (List Nat)
  | .null => pure []
  | v => v.asNats

def argN (a : List J) (i : Nat) : Except String J :=
  match a[i]? with
  | some v => pure v
  | none => .error s!"missing argument {i}"

def yJ (j : J) : Except String Y := do
  let a ← j.asArr
  let tag ← (← argN a 0).asStr
  match tag with
  | "num" => pure (.num (← (← argN a 1).asNat))
  | "block" => pure .block
  | "sleep" => pure (.sleep (← optNatJ (← argN a 1)))
  | "sleepabs" => pure (.sleepAbs (← (← argN a 1).asNat))
  | "select" => pure (.select (← fdsJ (← argN a 1)) (← fdsJ (← argN a 2)) (← fdsJ (← argN a 3)) (← optNatJ (← argN a 4)))
  | "recv" => pure (.recv (← (← argN a 1).asNat) (← optNatJ (← argN a 2)))
  | "send" => pure (.send (← (← argN a 1).asNat) (← (← argN a 2).asNat) (← optNatJ (← argN a 3)) (← (← argN a 4).asNat))
  | "exit" => pure .exit
  | "raise" => pure (.raise (← (← argN a 1).asNat))
  | "again" => pure (.again (← (← argN a 1).asNat) (← (← argN a 2).asBool))
  | "cancel" => pure (.cancel (← (← argN a 1).asNat))
  | t => .error s!"unknown yield {t}"

def timerJ (j : J) : Except String TimerCfg := do
  let a ← j.asArr
  pure { delay := ← (← argN a 0).asNat, recurring := ← (← argN a 1).asBool, selfStop := ← (← argN a 2).asBool,
         falseAt := ← optNatJ (← argN a 3) }

def excName : Exc → String
  | .user n => s!"E{n}"
  | .stopIteration => "StopIteration"
  | .runtimeError => "RuntimeError"
  | .indexError => "IndexError"
  | .nameError => "NameError"
  | .typeError => "TypeError"

def valOut : Val → J
  | .none => .null
  | .sel r w x => .arr [.str "sel", J.ofNats r, J.ofNats w, J.ofNats x]
  | .num n => .arr [.str "num", .num n]
  | .fals => .arr [.str "false"]
  | .data n => .arr [.str "data", .num n]

def recvOut : Recv → J
  | .val v => valOut v
  | .exc e => .arr [.str "exc", .str (excName e)]

def wakeOut : Option (Nat × Bool) → J
  | none => .null
  | some (w, f) => .arr [.num w, .bool f]

def isTimer (s : St) (t : Nat) : Bool :=
  match s.tasks[t]? with
  | some { kind := .timer _, .. } => true
  | _ => false

def evOut (s : St) : Ev → Option J
  | .step t i tm r raw w =>
    if isTimer s t then none else some (.arr [.str "s", .num t, .num i, .num tm, recvOut r, wakeOut w, valOut raw])
  | .fire t n tm => some (.arr [.str "f", .num t, .num n, .num tm])

def handle (j : J) : Except String J := do
  let t0 ← j.nat "t0"
  let budget ← j.nat "budget"
  let progs ← (← j.array "progs").mapM (fun p => do (← p.asArr).mapM yJ)
  let tasks ← j.nats "tasks"
  let timers ← (← j.array "timers").mapM timerJ
  let tab (k : String) : Except String (List (Option Nat)) := do (← j.array k).mapM optNatJ
  let cfg : Cfg := { progs := progs, env := { rAt := ← tab "r", wAt := ← tab "w", xAt := ← tab "x" },
                     fixSend := ← j.boolean "fix_send", fixEmptySub := ← j.boolean "fix_empty_sub" }
  let s := run cfg budget (initSt t0 tasks timers (← tab "send") (← tab "recv") (← j.nats "prios") (← j.nats "draws"))
  pure (J.mk [("trace", .arr (s.trace.filterMap (evOut s))), ("quit", .bool s.hasQuit), ("crashed", .bool s.crashed),
              ("cycles", .num s.cycles), ("now", .num s.now), ("ready", J.ofNats s.ready),
              ("incoming", J.ofNats (s.incoming.map (·.tid))), ("hub", J.ofNats (s.hub.map (·.tid)))])

def main : IO Unit := serve handle
