import PoxModel.Base.Proto
import PoxModel.Model.Discovery
open Pox Pox.Proto Pox.STree Pox.Discovery

def linkOfJ (j : J) : Except String Link := do
  match (← j.asNats) with
  | [a, b, c, d] => pure ⟨a, b, c, d⟩
  | _ => .error "link = [dpid1,port1,dpid2,port2]"

def linkToJ (l : Link) : J := J.ofNats [l.dpid1, l.port1, l.dpid2, l.port2]

def modToJ (m : PortMod) : J := J.arr [J.ofNat m.sw, J.ofNat m.port, J.bool m.flood]

def connsOfJ (js : List J) : Except String Conns :=
  js.mapM fun c => do
    match (← c.asArr) with
    | [d, ps] => pure ((← d.asNat), (← ps.asNats))
    | _ => .error "conn = [dpid,[ports]]"

def opOfJ (j : J) : Except String Op := do
  let k ← j.string "k"
  if k = "tick" then pure (.tick (← j.nat "dt"))
  else if k = "up" then pure (.up (← j.nat "dpid") (← j.nats "ports"))
  else if k = "down" then pure (.down (← j.nat "dpid") (← j.nats "order"))
  else if k = "probe" then pure (.probe (← linkOfJ (← j.get "l")) (← j.nats "order"))
  else if k = "sweep" then pure (.sweep (← j.nats "order"))
  else .error s!"unknown op kind {k}"

def topOfJ (j : J) : Except String TOp := do
  let k ← j.string "k"
  if k = "wait" then pure (.wait (← j.nat "dt") (← j.nats "order"))
  else if k = "up" then pure (.up (← j.nat "dpid") (← j.nats "ports"))
  else if k = "down" then pure (.down (← j.nat "dpid") (← j.nats "order"))
  else if k = "probe" then pure (.probe (← linkOfJ (← j.get "l")) (← j.nats "order"))
  else .error s!"unknown timed op kind {k}"

def outToJ (o : Out) : J :=
  J.mk [("events", J.arr (o.events.map fun (a, l) => J.arr [J.bool a, linkToJ l])),
        ("mods", J.arr (o.mods.map modToJ)), ("errs", J.ofNat o.errs)]

def recToJ : Recovered → J
  | .link d p => J.arr [J.str "link", J.num d, J.ofNat p]
  | .halt "not-lldp" => J.arr [J.str "ignored"]
  | .halt _ => J.arr [J.str "halt"]

def modOfJ (j : J) : Except String PortMod := do
  match (← j.asArr) with
  | [d, p, b] => pure ⟨← d.asNat, ← p.asNat, ← b.asBool⟩
  | _ => .error "mod = [dpid,port,flood]"

def modsOfJ (j : J) (k : String) : Except String (List PortMod) := do (← j.array k).mapM modOfJ

def entOfJ (j : J) : Except String (Nat × Nat × Nat) := do
  match (← j.asNats) with
  | [a, b, c] => pure (a, b, c)
  | _ => .error "tree entry = [switch,neighbour,port]"

/-- the choice of tree handed to the handlers: the implementation's, whatever the adjacency looks like — except that a self-link
    makes `_calc_spanning_tree` raise before it chooses anything -/
def flagSet (j : J) (k : String) : Bool := match j.get? k with | some (J.bool true) => true | _ => false

def chooseImpl (t : List TEdge) : Choose := fun a => if hasSelfLink a then .error "AssertionError" else .ok t

/-- is the specification's verdict asked for: an op that changed the adjacency (raised LinkEvents), no self-link in it -/
def verdictAfter (adjAfter : List Link) (t : List TEdge) (o : Out) : String :=
  if o.events.isEmpty || hasSelfLink adjAfter then "ok" else Spec.verdict adjAfter t

/-- a history with the implementation's port_mods next to every op: `bits` are the NO_FLOOD bits those port_mods leave on the
    switches (a ConnectionUp starts a connection on which nothing has been received); after every op the tree they amount to
    (`Spec.floodTree` on the adjacency after the op, which does not depend on any tree) is judged by `Spec.verdict` and handed to
    `stepOf` as the choice of tree -/
def runOpsImpl (v : Variant) : DState → Prev → List (Op × List PortMod) → DState × List (Out × String)
  | s, _, [] => (s, [])
  | s, b, (op, im) :: r =>
    let b0 := match op with | .up d _ => b.clear d | _ => b
    let b1 := Spec.applyBits b0 im
    let adjAfter := keys (step v s op).1.adj
    let t := Spec.floodTree adjAfter b1
    let res := stepOf v s (chooseImpl t) op
    let rs := runOpsImpl v res.1 b1 r
    (rs.1, (res.2, verdictAfter adjAfter t res.2) :: rs.2)

def runTImpl (v : Variant) : TState → Prev → List (TOp × List PortMod) → TState × List (Out × String)
  | ts, _, [] => (ts, [])
  | ts, b, (op, im) :: r =>
    let b0 := match op with | .up d _ => b.clear d | _ => b
    let b1 := Spec.applyBits b0 im
    let adjAfter := keys (tstep v ts op).1.d.adj
    let t := Spec.floodTree adjAfter b1
    let res := tstepOf v ts (chooseImpl t) op
    let rs := runTImpl v res.1 b1 r
    (rs.1, (res.2, verdictAfter adjAfter t res.2) :: rs.2)

/-- the same under a configuration (`Cfg`: configured link timeout, `no_flood`); at `Cfg.default` this is `runOpsImpl`
    (`stepOfC_default`) -/
def runOpsImplC (c : Cfg) (v : Variant) : DState → Prev → List (Op × List PortMod) → DState × List (Out × String)
  | s, _, [] => (s, [])
  | s, b, (op, im) :: r =>
    let b0 := match op with | .up d _ => b.clear d | _ => b
    let b1 := Spec.applyBits b0 im
    let adjAfter := keys (stepOfC c v s (fun a => calcTreeL a op.order) op).1.adj
    let t := Spec.floodTree adjAfter b1
    let res := stepOfC c v s (chooseImpl t) op
    let rs := runOpsImplC c v res.1 b1 r
    (rs.1, (res.2, verdictAfter adjAfter t res.2) :: rs.2)

def runTImplC (c : Cfg) (v : Variant) : TState → Prev → List (TOp × List PortMod) → TState × List (Out × String)
  | ts, _, [] => (ts, [])
  | ts, b, (op, im) :: r =>
    let b0 := match op with | .up d _ => b.clear d | _ => b
    let b1 := Spec.applyBits b0 im
    let adjAfter := keys (tstepOfC c v ts (fun a => calcTreeL a op.order) op).1.d.adj
    let t := Spec.floodTree adjAfter b1
    let res := tstepOfC c v ts (chooseImpl t) op
    let rs := runTImplC c v res.1 b1 r
    (rs.1, (res.2, verdictAfter adjAfter t res.2) :: rs.2)

/-- `"cfg": {"timeout": ms, "no_flood": bool}`; absent: the defaults -/
def cfgOfJ (j : J) : Except String (Option Cfg) := do
  match j.get? "cfg" with
  | none => pure none
  | some cj => pure (some ⟨← cj.nat "timeout", ← cj.boolean "no_flood"⟩)

def outVToJ (ov : Out × String) : J :=
  J.mk [("events", J.arr (ov.1.events.map fun (a, l) => J.arr [J.bool a, linkToJ l])),
        ("mods", J.arr (ov.1.mods.map modToJ)), ("errs", J.ofNat ov.1.errs), ("tree", J.str ov.2)]

def isBidirEnd (adj : List Link) (sw p : Nat) : Bool :=
  adj.any fun l => decide (l.flip ∈ adj) && ((l.dpid1 = sw && l.port1 = p) || (l.dpid2 = sw && l.port2 = p))

/-- an `_update_tree()` cut short by a failing send, with nothing after it that would show which tree it was pushing: what can be
    said of the port_mods that did go out whatever the tree — they go through the connected switches and their ports in order,
    each is a change against `_prev`, and a port that is not an end of a bidirectional link is told what `is_edge_port` says -/
def failedPrefixOK (all : Bool) (adj : List Link) (conns : Conns) (pv : Prev) (mods : List PortMod) : Bool :=
  let targets := conns.flatMap fun c => (c.2.filter fun p => decide (p < OFPP_MAX)).map fun p => (c.1, p)
  let ks := mods.map fun m => (m.sw, m.port)
  (if all then ks.isSublist targets else ks.all fun k => targets.contains k) &&
  mods.all fun m => decide (pv.get (m.sw, m.port) ≠ some m.flood) &&
    (isBidirEnd adj m.sw m.port || m.flood == isEdgePort adj m.sw m.port)

def handle1 (j : J) : Except String J := do
  let op ← j.string "op"
  if op = "calc" then
    let adj ← (← j.array "adj").mapM linkOfJ
    let order ← j.nats "order"
    match calcTreeL adj order with
    | .error e => pure (J.mk [("exc", J.str e)])
    | .ok t =>
      match j.get? "tree" with
      | some tj =>
        -- the implementation's tree (the returned dict as entries [switch, neighbour, port]): is it one the specification allows
        let ents ← (← tj.asArr).mapM entOfJ
        let v := match Spec.pairUp ents with
          | .error e => e
          | .ok ti => Spec.verdict adj ti
        pure (J.mk [("valid", J.str v), ("model", J.str (Spec.verdict adj t))])
      | none => pure (J.mk [("tree", J.arr (t.map fun e => J.ofNats [e.v, e.pv, e.w, e.pw])),
                            ("keys", J.ofNats (treeKeys t))])
  else if op = "update" then
    let adj ← (← j.array "adj").mapM linkOfJ
    let order ← j.nats "order"
    let conns ← connsOfJ (← j.array "conns")
    let prev ← (← j.array "prev").mapM fun e => do
      match (← e.asArr) with
      | [d, p, b] => pure (((← d.asNat), (← p.asNat)), (← b.asBool))
      | _ => .error "prev = [dpid,port,bool]"
    let fail ← j.optNat "fail"
    let all ← j.boolean "all"
    let prevJ := fun (pv : Prev) => J.arr (pv.map fun ((d, p), b) => J.arr [J.ofNat d, J.ofNat p, J.bool b])
    if let some ij := j.get? "impl" then
      -- the implementation's port_mods: the tree they amount to is judged by the specification and handed to `updateTreeOf`
      let mods ← modsOfJ ij "mods"
      let again := flagSet j "again"
      let mods2 ← if again then modsOfJ ij "mods2" else pure []
      let b1 := Spec.applyBits prev mods
      let t := Spec.floodTree adj (Spec.applyBits b1 mods2)
      let tr : Except String (List TEdge) := match calcTreeL adj order with
        | .error e => .error e            -- a self-link: `_calc_spanning_tree` raises before it chooses
        | .ok _ => .ok t
      let ans := fun (v : String) (pv : Prev) (ms : List PortMod) (second : Option (Prev × List PortMod)) =>
        J.mk ([("tree", J.str v), ("mods", J.arr (ms.map modToJ)), ("prev", prevJ pv)] ++
              (match second with | some (pv2, ms2) => [("mods2", J.arr (ms2.map modToJ)), ("prev2", prevJ pv2)] | none => []))
      match updateTreeFOf all adj tr conns prev fail with
      | .error e => return (J.mk [("exc", J.str e)])
      | .ok (pv, ms) =>
        if again then
          match updateTreeOf all adj tr conns pv with
          | .error e => return (J.mk [("exc", J.str e)])
          | .ok r2 => return (ans (Spec.verdict adj t) pv ms (some r2))
        else if fail == some mods.length && !(ms == mods && Spec.verdict adj t == "ok") && failedPrefixOK all adj conns prev mods then
          -- cut short by the failing send, nothing after it: the tree is not observable
          return (ans "ok" [] mods none)
        else return (ans (Spec.verdict adj t) pv ms none)
    match updateTreeF all adj order conns prev fail with
    | .error e => pure (J.mk [("exc", J.str e)])
    | .ok (pv, mods) =>
      -- "again": a second, undisturbed `_update_tree()` right after (what follows a failed send)
      match j.get? "again" with
      | some (J.bool true) =>
        match updateTree all adj order conns pv with
        | .error e => pure (J.mk [("exc", J.str e)])
        | .ok (pv2, mods2) => pure (J.mk [("mods", J.arr (mods.map modToJ)), ("prev", prevJ pv),
                                          ("mods2", J.arr (mods2.map modToJ)), ("prev2", prevJ pv2)])
      | _ => pure (J.mk [("mods", J.arr (mods.map modToJ)), ("prev", prevJ pv)])
  else if op = "history" then
    let vj ← j.get "variant"
    let v : Variant := ⟨← vj.boolean "popFirst", ← vj.boolean "skip", ← vj.boolean "visitAll"⟩
    let opsJ ← j.array "ops"
    let ops ← opsJ.mapM opOfJ
    let cfg ← cfgOfJ j
    if cfg.isSome && !flagSet j "impl" then throw "a configuration is only modelled for the handlers with the tree as a parameter (impl)"
    if flagSet j "impl" then
      let ims ← opsJ.mapM fun o => modsOfJ o "mods"
      let (s, outs) := match cfg with
        | some c => runOpsImplC c v Discovery.init [] (ops.zip ims)
        | none => runOpsImpl v Discovery.init [] (ops.zip ims)
      return (J.mk [("outs", J.arr (outs.map outVToJ)),
                  ("adjacency", J.arr (s.adj.map fun (l, t) => J.arr [linkToJ l, J.ofNat (t - Discovery.init.now)])),
                  ("prev", J.arr (s.prev.map fun ((d, p), b) => J.arr [J.ofNat d, J.ofNat p, J.bool b]))])
    let (s, outs) := runOps v Discovery.init ops
    pure (J.mk [("outs", J.arr (outs.map outToJ)),
                ("adjacency", J.arr (s.adj.map fun (l, t) => J.arr [linkToJ l, J.ofNat (t - Discovery.init.now)])),
                ("prev", J.arr (s.prev.map fun ((d, p), b) => J.arr [J.ofNat d, J.ofNat p, J.bool b]))])
  else if op = "timed" then
    -- a timer-driven history: the expiry sweeps are not ops, they fire while time passes (`wait`)
    let vj ← j.get "variant"
    let v : Variant := ⟨← vj.boolean "popFirst", ← vj.boolean "skip", ← vj.boolean "visitAll"⟩
    let opsJ ← j.array "ops"
    let ops ← opsJ.mapM topOfJ
    let cfg ← cfgOfJ j
    if cfg.isSome && !flagSet j "impl" then throw "a configuration is only modelled for the handlers with the tree as a parameter (impl)"
    if flagSet j "impl" then
      let ims ← opsJ.mapM fun o => modsOfJ o "mods"
      let (ts, outs) := match cfg with
        | some c => runTImplC c v Discovery.tinit [] (ops.zip ims)
        | none => runTImpl v Discovery.tinit [] (ops.zip ims)
      return (J.mk [("outs", J.arr (outs.map outVToJ)),
                  ("adjacency", J.arr (ts.d.adj.map fun (l, t) => J.arr [linkToJ l, J.ofNat (t - Discovery.init.now)])),
                  ("timer", match ts.next with | some n => J.ofNat (n - Discovery.init.now) | none => J.str "stopped")])
    let (ts, outs) := runT v Discovery.tinit ops
    pure (J.mk [("outs", J.arr (outs.map outToJ)),
                ("adjacency", J.arr (ts.d.adj.map fun (l, t) => J.arr [linkToJ l, J.ofNat (t - Discovery.init.now)])),
                ("timer", match ts.next with | some n => J.ofNat (n - Discovery.init.now) | none => J.str "stopped")])
  else if op = "pack" then
    pure (J.mk [("frame", J.ofBytes (probeFrame (← j.nat "dpid") (← j.nat "port") (← j.bytes "hw") (← j.nat "ttl")))])
  else if op = "recover" then
    match recover (← j.bytes "frame") with
    | .error e => pure (J.mk [("exc", J.str e)])
    | .ok r => pure (J.mk [("r", recToJ r)])
  else .error s!"unknown op {op}"

/-- `{"op":"batch","reqs":[…]}`: the answers to a sequence of independent requests (each answered as if it were the only one) -/
def handle (j : J) : Except String J := do
  let op ← j.string "op"
  if op = "batch" then
    let rs ← (← j.array "reqs").mapM fun r => pure (match handle1 r with | .ok x => x | .error e => J.mk [("error", J.str e)])
    pure (J.mk [("resps", J.arr rs)])
  else handle1 j

def main : IO Unit := serve handle
