import PoxModel.Base.Proto
import PoxModel.Model.Discovery
open Pox Pox.Proto Pox.STree Pox.Discovery

def linkOfJ (j : J) : Except String Link := do
  match (← j.asNats) with
  | [a, b, c, d] => pure ⟨a, b, c, d⟩
  | _ => .error "link = [dpid1,port1,dpid2,port2]"

def linkToJ (l : Link) : J := J.ofNats [l.dpid1, l.port1, l.dpid2, l.port2]

def modToJ (m : PortMod) : J := J.arr [J.ofNat m.sw, J.ofNat m.port, J.bool m.flood]

def connsOfJ (js : List J) : Except String Conns :=
  js.mapM fun c => do
    match (← c.asArr) with
    | [d, ps] => pure ((← d.asNat), (← ps.asNats))
    | _ => .error "conn = [dpid,[ports]]"

def opOfJ (j : J) : Except String Op := do
  let k ← j.string "k"
  if k = "tick" then pure (.tick (← j.nat "dt"))
  else if k = "up" then pure (.up (← j.nat "dpid") (← j.nats "ports"))
  else if k = "down" then pure (.down (← j.nat "dpid") (← j.nats "order"))
  else if k = "probe" then pure (.probe (← linkOfJ (← j.get "l")) (← j.nats "order"))
  else if k = "sweep" then pure (.sweep (← j.nats "order"))
  else .error s!"unknown op kind {k}"

def topOfJ (j : J) : Except String TOp := do
  let k ← j.string "k"
  if k = "wait" then pure (.wait (← j.nat "dt") (← j.nats "order"))
  else if k = "up" then pure (.up (← j.nat "dpid") (← j.nats "ports"))
  else if k = "down" then pure (.down (← j.nat "dpid") (← j.nats "order"))
  else if k = "probe" then pure (.probe (← linkOfJ (← j.get "l")) (← j.nats "order"))
  else .error s!"unknown timed op kind {k}"

def outToJ (o : Out) : J :=
  J.mk [("events", J.arr (o.events.map fun (a, l) => J.arr [J.bool a, linkToJ l])),
        ("mods", J.arr (o.mods.map modToJ)), ("errs", J.ofNat o.errs)]

def recToJ : Recovered → J
  | .link d p => J.arr [J.str "link", J.num d, J.ofNat p]
  | .halt "not-lldp" => J.arr [J.str "ignored"]
  | .halt _ => J.arr [J.str "halt"]

def handle1 (j : J) : Except String J := do
  let op ← j.string "op"
  if op = "calc" then
    let adj ← (← j.array "adj").mapM linkOfJ
    let order ← j.nats "order"
    match calcTreeL adj order with
    | .error e => pure (J.mk [("exc", J.str e)])
    | .ok t => pure (J.mk [("tree", J.arr (t.map fun e => J.ofNats [e.v, e.pv, e.w, e.pw])),
                           ("keys", J.ofNats (treeKeys t))])
  else if op = "update" then
    let adj ← (← j.array "adj").mapM linkOfJ
    let order ← j.nats "order"
    let conns ← connsOfJ (← j.array "conns")
    let prev ← (← j.array "prev").mapM fun e => do
      match (← e.asArr) with
      | [d, p, b] => pure (((← d.asNat), (← p.asNat)), (← b.asBool))
      | _ => .error "prev = [dpid,port,bool]"
    let fail ← j.optNat "fail"
    let all ← j.boolean "all"
    let prevJ := fun (pv : Prev) => J.arr (pv.map fun ((d, p), b) => J.arr [J.ofNat d, J.ofNat p, J.bool b])
    match updateTreeF all adj order conns prev fail with
    | .error e => pure (J.mk [("exc", J.str e)])
    | .ok (pv, mods) =>
      -- "again": a second, undisturbed `_update_tree()` right after (what follows a failed send)
      match j.get? "again" with
      | some (J.bool true) =>
        match updateTree all adj order conns pv with
        | .error e => pure (J.mk [("exc", J.str e)])
        | .ok (pv2, mods2) => pure (J.mk [("mods", J.arr (mods.map modToJ)), ("prev", prevJ pv),
                                          ("mods2", J.arr (mods2.map modToJ)), ("prev2", prevJ pv2)])
      | _ => pure (J.mk [("mods", J.arr (mods.map modToJ)), ("prev", prevJ pv)])
  else if op = "history" then
    let vj ← j.get "variant"
    let v : Variant := ⟨← vj.boolean "popFirst", ← vj.boolean "skip", ← vj.boolean "visitAll"⟩
    let ops ← (← j.array "ops").mapM opOfJ
    let (s, outs) := runOps v Discovery.init ops
    pure (J.mk [("outs", J.arr (outs.map outToJ)),
                ("adjacency", J.arr (s.adj.map fun (l, t) => J.arr [linkToJ l, J.ofNat (t - Discovery.init.now)])),
                ("prev", J.arr (s.prev.map fun ((d, p), b) => J.arr [J.ofNat d, J.ofNat p, J.bool b]))])
  else if op = "timed" then
    -- a timer-driven history: the expiry sweeps are not ops, they fire while time passes (`wait`)
    let vj ← j.get "variant"
    let v : Variant := ⟨← vj.boolean "popFirst", ← vj.boolean "skip", ← vj.boolean "visitAll"⟩
    let ops ← (← j.array "ops").mapM topOfJ
    let (ts, outs) := runT v Discovery.tinit ops
    pure (J.mk [("outs", J.arr (outs.map outToJ)),
                ("adjacency", J.arr (ts.d.adj.map fun (l, t) => J.arr [linkToJ l, J.ofNat (t - Discovery.init.now)])),
                ("timer", match ts.next with | some n => J.ofNat (n - Discovery.init.now) | none => J.str "stopped")])
  else if op = "pack" then
    pure (J.mk [("frame", J.ofBytes (probeFrame (← j.nat "dpid") (← j.nat "port") (← j.bytes "hw") (← j.nat "ttl")))])
  else if op = "recover" then
    match recover (← j.bytes "frame") with
    | .error e => pure (J.mk [("exc", J.str e)])
    | .ok r => pure (J.mk [("r", recToJ r)])
  else .error s!"unknown op {op}"

/-- `{"op":"batch","reqs":[…]}`: the answers to a sequence of independent requests (each answered as if it were the only one) -/
def handle (j : J) : Except String J := do
  let op ← j.string "op"
  if op = "batch" then
    let rs ← (← j.array "reqs").mapM fun r => pure (match handle1 r with | .ok x => x | .error e => J.mk [("error", J.str e)])
    pure (J.mk [("resps", J.arr rs)])
  else handle1 j

def main : IO Unit := serve handle
