import PoxModel.Base.Proto
import PoxModel.Model.BufPool
open Pox Pox.Proto Pox.BufPool

def parseOp (j : J) : Except String Op := do
  let k ← j.string "op"
  if k = "arrive" then
    pure (.arrive (← j.bytes "fr") (← j.nat "port") (← j.optNat "dl"))
  else if k = "use" then pure (.use (← j.nat "id"))
  else if k = "usectl" then pure (.useCtl (← j.nat "id") (← j.nat "dl"))
  else if k = "drop" then pure (.drop (← j.nat "id"))
  else if k = "setmiss" then pure (.setMiss (← j.nat "n"))
  else if k = "other" then pure .other
  else throw s!"unknown op {k}"

def outJ : Out → J
  | .packetIn bid data total port =>
    J.mk [("k", J.str "pin"), ("bid", J.ofOptNat bid), ("data", J.ofBytes data), ("total", J.ofNat total), ("port", J.ofNat port)]
  | .emit fr port => J.mk [("k", J.str "emit"), ("fr", J.ofBytes fr), ("port", J.ofNat port)]
  | .nothing => J.mk [("k", J.str "none")]

/-- request {"max":n,"miss":n,"ops":[…]} → {"outs":[…],"stored":n,"slots":[0/1…]} -/
def handle (j : J) : Except String J := do
  let ops ← (← j.array "ops").mapM parseOp
  let (s, outs) := run (init (← j.nat "max") (← j.nat "miss")) ops
  pure (J.mk [("outs", J.arr (outs.map outJ)), ("stored", J.ofNat (stored s.pool)),
              ("slots", J.ofNats (s.pool.slots.map fun o => if o.isSome then 1 else 0))])

def main : IO Unit := serve handle
