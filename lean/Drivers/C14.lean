import PoxModel.Base.Proto
import PoxModel.Model.Checksum
import PoxModel.Model.PacketHdr
open Pox Pox.Proto Pox.Checksum Pox.Packet

/-! Line-protocol driver for C14.

  {"op":"cksum","data":hex,"start":n,"skip":n|null}
      → {"code": model of packet_utils.checksum (repaired, D12), "spec": rfc1071 of the data with word `skip` zeroed}
  {"op":"stack","top":"ethernet"|"ipv4"|…,"layers":[{"k":…, fields…}, …, terminal]}
      → {"pack":hex,"built":[layers after pack()],"parsed":[layers of top(raw=pack)],"repack":hex}
        or {"exc":"error"} when pack() raises struct.error, {"error":…} for requests outside the model
  {"op":"mutparse","top":…,"layers":[…],"mut":[{"m":"trunc","n":k}|{"m":"set","i":k,"v":b},…]}
      → {"raw":hex,"parsed":[…],"repack":hex}   (model-packed bytes, damaged, parsed: the malformed-input stream)
  {"op":"parse","top":…,"raw":hex} → {"parsed":[…],"repack":hex}
-/

def optJ : TcpOpt → J
  | .eol => J.mk [("t", J.ofNat 0)]
  | .nop => J.mk [("t", J.ofNat 1)]
  | .mss v => J.mk [("t", J.ofNat 2), ("v", J.ofNat v)]
  | .ws v => J.mk [("t", J.ofNat 3), ("v", J.ofNat v)]
  | .sackperm => J.mk [("t", J.ofNat 4)]
  | .sack bl => J.mk [("t", J.ofNat 5), ("v", J.arr (bl.map fun (a, b) => J.ofNats [a, b]))]
  | .ts a b => J.mk [("t", J.ofNat 8), ("v", J.ofNats [a, b])]
  | .other t val => J.mk [("t", J.ofNat t), ("v", J.ofBytes val)]

def optOfJ (j : J) : Except String TcpOpt := do
  let t ← j.nat "t"
  if t = 0 then pure .eol
  else if t = 1 then pure .nop
  else if t = 2 then pure (.mss (← j.nat "v"))
  else if t = 3 then pure (.ws (← j.nat "v"))
  else if t = 4 then pure .sackperm
  else if t = 5 then do
    let bl ← (← j.array "v").mapM fun p => do
      match ← p.asNats with
      | [a, b] => pure (a, b)
      | _ => throw "sack block must be a pair"
    pure (.sack bl)
  else if t = 8 then do
    match ← j.nats "v" with
    | [a, b] => pure (.ts a b)
    | _ => throw "ts value must be a pair"
  else pure (.other t (← j.bytes "v"))

def chainJ : Pkt → List J
  | .raw b => [J.mk [("k", J.str "bytes"), ("data", J.ofBytes b)]]
  | .nil => [J.mk [("k", J.str "none")]]
  | .unparsed c r => [J.mk [("k", J.str "unparsed"), ("cls", J.str c), ("raw", J.ofBytes r)]]
  | .unmodelled c r => [J.mk [("k", J.str "unmodelled"), ("cls", J.str c), ("raw", J.ofBytes r)]]
  | .eth h n => J.mk [("k", J.str "ethernet"), ("dst", J.ofBytes h.dst), ("src", J.ofBytes h.src), ("type", J.ofNat h.type)]
      :: chainJ n
  | .vlan h n => J.mk [("k", J.str "vlan"), ("pcp", J.ofNat h.pcp), ("cfi", J.ofNat h.cfi), ("id", J.ofNat h.id),
      ("eth_type", J.ofNat h.ethType)] :: chainJ n
  | .arp h n => J.mk [("k", J.str "arp"), ("hwtype", J.ofNat h.hwtype), ("prototype", J.ofNat h.prototype),
      ("hwlen", J.ofNat h.hwlen), ("protolen", J.ofNat h.protolen), ("opcode", J.ofNat h.opcode),
      ("hwsrc", J.ofBytes h.hwsrc), ("protosrc", J.ofNat h.protosrc), ("hwdst", J.ofBytes h.hwdst),
      ("protodst", J.ofNat h.protodst)] :: chainJ n
  | .ipv4 h n => J.mk [("k", J.str "ipv4"), ("v", J.ofNat h.v), ("hl", J.ofNat h.hl), ("tos", J.ofNat h.tos),
      ("iplen", J.ofNat h.iplen), ("id", J.ofNat h.id), ("flags", J.ofNat h.flags), ("frag", J.ofNat h.frag),
      ("ttl", J.ofNat h.ttl), ("protocol", J.ofNat h.proto), ("csum", J.ofNat h.csum), ("srcip", J.ofNat h.src),
      ("dstip", J.ofNat h.dst), ("raw_options", J.ofBytes h.opts)] :: chainJ n
  | .udp h n => J.mk [("k", J.str "udp"), ("srcport", J.ofNat h.sport), ("dstport", J.ofNat h.dport),
      ("len", J.ofNat h.len), ("csum", J.ofNat h.csum)] :: chainJ n
  | .tcp h n => J.mk [("k", J.str "tcp"), ("srcport", J.ofNat h.sport), ("dstport", J.ofNat h.dport),
      ("seq", J.ofNat h.seq), ("ack", J.ofNat h.ack), ("off", J.ofNat h.off), ("res", J.ofNat h.res),
      ("flags", J.ofNat h.flags), ("win", J.ofNat h.win), ("csum", J.ofNat h.csum), ("urg", J.ofNat h.urg),
      ("options", J.arr (h.opts.map optJ))] :: chainJ n
  | .icmp h n => J.mk [("k", J.str "icmp"), ("type", J.ofNat h.type), ("code", J.ofNat h.code), ("csum", J.ofNat h.csum)]
      :: chainJ n
  | .echo h n => J.mk [("k", J.str "echo"), ("id", J.ofNat h.id), ("seq", J.ofNat h.seq)] :: chainJ n
  | .unreach h n => J.mk [("k", J.str "unreach"), ("unused", J.ofNat h.unused), ("next_mtu", J.ofNat h.nextMtu)]
      :: chainJ n
  | .timeEx h n => J.mk [("k", J.str "time_exceeded"), ("unused", J.ofNat h.unused)] :: chainJ n

def ofChain : List J → Except String Pkt
  | [] => throw "empty chain (a terminal layer is required)"
  | j :: rest => do
    let k ← j.string "k"
    if k = "bytes" then
      if rest.isEmpty then pure (.raw (← j.bytes "data")) else throw "bytes must be last"
    else if k = "none" then
      if rest.isEmpty then pure .nil else throw "none must be last"
    else
      let n ← ofChain rest
      if k = "ethernet" then pure (.eth ⟨← j.bytes "dst", ← j.bytes "src", ← j.nat "type"⟩ n)
      else if k = "vlan" then pure (.vlan ⟨← j.nat "pcp", ← j.nat "cfi", ← j.nat "id", ← j.nat "eth_type"⟩ n)
      else if k = "arp" then
        pure (.arp ⟨← j.nat "hwtype", ← j.nat "prototype", ← j.nat "hwlen", ← j.nat "protolen", ← j.nat "opcode",
                    ← j.bytes "hwsrc", ← j.nat "protosrc", ← j.bytes "hwdst", ← j.nat "protodst"⟩ n)
      else if k = "ipv4" then
        pure (.ipv4 ⟨← j.nat "v", ← j.nat "hl", ← j.nat "tos", ← j.nat "iplen", ← j.nat "id", ← j.nat "flags",
                     ← j.nat "frag", ← j.nat "ttl", ← j.nat "protocol", ← j.nat "csum", ← j.nat "srcip",
                     ← j.nat "dstip", ← j.bytes "raw_options"⟩ n)
      else if k = "udp" then pure (.udp ⟨← j.nat "srcport", ← j.nat "dstport", ← j.nat "len", ← j.nat "csum"⟩ n)
      else if k = "tcp" then do
        let os ← (← j.array "options").mapM optOfJ
        pure (.tcp ⟨← j.nat "srcport", ← j.nat "dstport", ← j.nat "seq", ← j.nat "ack", ← j.nat "off", ← j.nat "res",
                    ← j.nat "flags", ← j.nat "win", ← j.nat "csum", ← j.nat "urg", os⟩ n)
      else if k = "icmp" then pure (.icmp ⟨← j.nat "type", ← j.nat "code", ← j.nat "csum"⟩ n)
      else if k = "echo" then pure (.echo ⟨← j.nat "id", ← j.nat "seq"⟩ n)
      else if k = "unreach" then pure (.unreach ⟨← j.nat "unused", ← j.nat "next_mtu"⟩ n)
      else if k = "time_exceeded" then pure (.timeEx ⟨← j.nat "unused"⟩ n)
      else throw s!"layer kind {k} is not modelled"

def kindOf (s : String) : Except String Kind :=
  if s = "ethernet" then pure .eth else if s = "vlan" then pure .vlan else if s = "arp" then pure .arp
  else if s = "ipv4" then pure .ipv4 else if s = "udp" then pure .udp else if s = "tcp" then pure .tcp
  else if s = "icmp" then pure .icmp else if s = "echo" then pure .echo else if s = "unreach" then pure .unreach
  else if s = "time_exceeded" then pure .timeEx else throw s!"top kind {s} is not modelled"

def hasUnmodelled : Pkt → Option String
  | .unmodelled c _ => some c
  | .eth _ n | .vlan _ n | .arp _ n | .ipv4 _ n | .udp _ n | .tcp _ n | .icmp _ n | .echo _ n | .unreach _ n
  | .timeEx _ n => hasUnmodelled n
  | _ => none

def parsedAndRepack (k : Kind) (raw : Bytes) : Except String (List (String × J)) := do
  let q := parseTop k raw
  match hasUnmodelled q with
  | some c => throw s!"unmodelled:{c}"
  | none =>
    match pack none q with
    | .ok b => pure [("parsed", J.arr (chainJ q)), ("repack", J.ofBytes b)]
    | .error e => pure [("parsed", J.arr (chainJ q)), ("repack_exc", J.str e.toString)]

def handle (j : J) : Except String J := do
  let op ← j.string "op"
  if op = "cksum" then
    let d ← j.bytes "data"
    let start ← j.nat "start"
    let skip ← j.optNat "skip"
    let z := match skip with
      | some k => zeroWord k d
      | none => d
    pure (J.mk [("code", J.ofNat (checksum d start skip)), ("spec", J.ofNat (rfc1071 z))])
  else if op = "stack" then
    let k ← kindOf (← j.string "top")
    let p ← ofChain (← j.array "layers")
    match packU none p with
    | .error (.unmodelled c) => throw s!"unmodelled:{c}"
    | .error e => pure (J.mk [("exc", J.str e.toString)])
    | .ok (p', bs) =>
      let rest ← parsedAndRepack k bs
      pure (J.mk ([("pack", J.ofBytes bs), ("built", J.arr (chainJ p'))] ++ rest))
  else if op = "mutparse" then
    -- pack with the model, damage the bytes ("trunc" n | "set" i v), parse the result: the malformed-input stream
    let k ← kindOf (← j.string "top")
    let p ← ofChain (← j.array "layers")
    match packU none p with
    | .error (.unmodelled c) => throw s!"unmodelled:{c}"
    | .error e => pure (J.mk [("exc", J.str e.toString)])
    | .ok (_, bs) =>
      let muts ← j.array "mut"
      let raw ← muts.foldlM (fun (acc : Bytes) (m : J) => do
        let kind ← m.string "m"
        if kind = "trunc" then pure (acc.take (← m.nat "n"))
        else if kind = "set" then
          let i ← m.nat "i"
          let v ← m.nat "v"
          pure (if i < acc.length then acc.set i (UInt8.ofNat v) else acc)
        else throw "unknown mutation") bs
      let rest ← parsedAndRepack k raw
      pure (J.mk ([("raw", J.ofBytes raw)] ++ rest))
  else if op = "parse" then
    let k ← kindOf (← j.string "top")
    pure (J.mk (← parsedAndRepack k (← j.bytes "raw")))
  else throw s!"unknown op {op}"

def main : IO Unit := serve handle
