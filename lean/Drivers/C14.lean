import PoxModel.Base.Proto
import PoxModel.Model.Checksum
import PoxModel.Model.PacketHdr
import PoxModel.Model.PacketExt
import PoxModel.Model.IPv6Ext
open Pox Pox.Proto Pox.Checksum Pox.Packet

/-! Line-protocol driver for C14.

  {"op":"cksum","data":hex,"start":n,"skip":n|null}
      → {"code": model of packet_utils.checksum (repaired, D12), "spec": rfc1071 of the data with word `skip` zeroed}
  {"op":"stack","top":"ethernet"|"ipv4"|…,"layers":[{"k":…, fields…}, …, terminal]}
      → {"pack":hex,"built":[layers after pack()],"parsed":[layers of top(raw=pack)],"repack":hex}
        or {"exc":"error"} when pack() raises struct.error, {"error":…} for requests outside the model
  {"op":"mutparse","top":…,"layers":[…],"mut":[{"m":"trunc","n":k}|{"m":"set","i":k,"v":b},…]}
      → {"raw":hex,"parsed":[…],"repack":hex}   (model-packed bytes, damaged, parsed: the malformed-input stream)
  {"op":"parse","top":…,"raw":hex} → {"parsed":[…],"repack":hex}
  {"op":"seq","steps":[request,…]} → {"steps":[answer,…]}
  {"op":"v6ext","exts":[{"t":type,"nh":n,"plen":n,"body":hex},…],"nht":n,"payload":hex,"trailer":hex}
      → {"packed":hex|null, "res":"ok"|"unparsed", "exts":[…], "nht":n, "payload":hex|null}
        (Model/IPv6Ext.lean: the chain serialised as ipv6.hdr does, and the extension-header loop of ipv6.parse run on
         packed ++ payload ++ trailer with payload_length = |packed| + |payload|)
-/

def optJ : TcpOpt → J
  | .eol => J.mk [("t", J.ofNat 0)]
  | .nop => J.mk [("t", J.ofNat 1)]
  | .mss v => J.mk [("t", J.ofNat 2), ("v", J.ofNat v)]
  | .ws v => J.mk [("t", J.ofNat 3), ("v", J.ofNat v)]
  | .sackperm => J.mk [("t", J.ofNat 4)]
  | .sack bl => J.mk [("t", J.ofNat 5), ("v", J.arr (bl.map fun (a, b) => J.ofNats [a, b]))]
  | .ts a b => J.mk [("t", J.ofNat 8), ("v", J.ofNats [a, b])]
  | .other t val => J.mk [("t", J.ofNat t), ("v", J.ofBytes val)]

def optOfJ (j : J) : Except String TcpOpt := do
  let t ← j.nat "t"
  if t = 0 then pure .eol
  else if t = 1 then pure .nop
  else if t = 2 then pure (.mss (← j.nat "v"))
  else if t = 3 then pure (.ws (← j.nat "v"))
  else if t = 4 then pure .sackperm
  else if t = 5 then do
    let bl ← (← j.array "v").mapM fun p => do
      match ← p.asNats with
      | [a, b] => pure (a, b)
      | _ => throw "sack block must be a pair"
    pure (.sack bl)
  else if t = 8 then do
    match ← j.nats "v" with
    | [a, b] => pure (.ts a b)
    | _ => throw "ts value must be a pair"
  else pure (.other t (← j.bytes "v"))

def chainJ : Pkt → List J
  | .raw b => [J.mk [("k", J.str "bytes"), ("data", J.ofBytes b)]]
  | .nil => [J.mk [("k", J.str "none")]]
  | .unparsed c r => [J.mk [("k", J.str "unparsed"), ("cls", J.str c), ("raw", J.ofBytes r)]]
  | .unmodelled c r => [J.mk [("k", J.str "unmodelled"), ("cls", J.str c), ("raw", J.ofBytes r)]]
  | .eth h n => J.mk [("k", J.str "ethernet"), ("dst", J.ofBytes h.dst), ("src", J.ofBytes h.src), ("type", J.ofNat h.type)]
      :: chainJ n
  | .vlan h n => J.mk [("k", J.str "vlan"), ("pcp", J.ofNat h.pcp), ("cfi", J.ofNat h.cfi), ("id", J.ofNat h.id),
      ("eth_type", J.ofNat h.ethType)] :: chainJ n
  | .arp h n => J.mk [("k", J.str "arp"), ("hwtype", J.ofNat h.hwtype), ("prototype", J.ofNat h.prototype),
      ("hwlen", J.ofNat h.hwlen), ("protolen", J.ofNat h.protolen), ("opcode", J.ofNat h.opcode),
      ("hwsrc", J.ofBytes h.hwsrc), ("protosrc", J.ofNat h.protosrc), ("hwdst", J.ofBytes h.hwdst),
      ("protodst", J.ofNat h.protodst)] :: chainJ n
  | .ipv4 h n => J.mk [("k", J.str "ipv4"), ("v", J.ofNat h.v), ("hl", J.ofNat h.hl), ("tos", J.ofNat h.tos),
      ("iplen", J.ofNat h.iplen), ("id", J.ofNat h.id), ("flags", J.ofNat h.flags), ("frag", J.ofNat h.frag),
      ("ttl", J.ofNat h.ttl), ("protocol", J.ofNat h.proto), ("csum", J.ofNat h.csum), ("srcip", J.ofNat h.src),
      ("dstip", J.ofNat h.dst), ("raw_options", J.ofBytes h.opts)] :: chainJ n
  | .udp h n => J.mk [("k", J.str "udp"), ("srcport", J.ofNat h.sport), ("dstport", J.ofNat h.dport),
      ("len", J.ofNat h.len), ("csum", J.ofNat h.csum)] :: chainJ n
  | .tcp h n => J.mk [("k", J.str "tcp"), ("srcport", J.ofNat h.sport), ("dstport", J.ofNat h.dport),
      ("seq", J.ofNat h.seq), ("ack", J.ofNat h.ack), ("off", J.ofNat h.off), ("res", J.ofNat h.res),
      ("flags", J.ofNat h.flags), ("win", J.ofNat h.win), ("csum", J.ofNat h.csum), ("urg", J.ofNat h.urg),
      ("options", J.arr (h.opts.map optJ))] :: chainJ n
  | .icmp h n => J.mk [("k", J.str "icmp"), ("type", J.ofNat h.type), ("code", J.ofNat h.code), ("csum", J.ofNat h.csum)]
      :: chainJ n
  | .echo h n => J.mk [("k", J.str "echo"), ("id", J.ofNat h.id), ("seq", J.ofNat h.seq)] :: chainJ n
  | .unreach h n => J.mk [("k", J.str "unreach"), ("unused", J.ofNat h.unused), ("next_mtu", J.ofNat h.nextMtu)]
      :: chainJ n
  | .timeEx h n => J.mk [("k", J.str "time_exceeded"), ("unused", J.ofNat h.unused)] :: chainJ n

def ofChain : List J → Except String Pkt
  | [] => throw "empty chain (a terminal layer is required)"
  | j :: rest => do
    let k ← j.string "k"
    if k = "bytes" then
      if rest.isEmpty then pure (.raw (← j.bytes "data")) else throw "bytes must be last"
    else if k = "none" then
      if rest.isEmpty then pure .nil else throw "none must be last"
    else
      let n ← ofChain rest
      if k = "ethernet" then pure (.eth ⟨← j.bytes "dst", ← j.bytes "src", ← j.nat "type"⟩ n)
      else if k = "vlan" then pure (.vlan ⟨← j.nat "pcp", ← j.nat "cfi", ← j.nat "id", ← j.nat "eth_type"⟩ n)
      else if k = "arp" then
        pure (.arp ⟨← j.nat "hwtype", ← j.nat "prototype", ← j.nat "hwlen", ← j.nat "protolen", ← j.nat "opcode",
                    ← j.bytes "hwsrc", ← j.nat "protosrc", ← j.bytes "hwdst", ← j.nat "protodst"⟩ n)
      else if k = "ipv4" then
        pure (.ipv4 ⟨← j.nat "v", ← j.nat "hl", ← j.nat "tos", ← j.nat "iplen", ← j.nat "id", ← j.nat "flags",
                     ← j.nat "frag", ← j.nat "ttl", ← j.nat "protocol", ← j.nat "csum", ← j.nat "srcip",
                     ← j.nat "dstip", ← j.bytes "raw_options"⟩ n)
      else if k = "udp" then pure (.udp ⟨← j.nat "srcport", ← j.nat "dstport", ← j.nat "len", ← j.nat "csum"⟩ n)
      else if k = "tcp" then do
        let os ← (← j.array "options").mapM optOfJ
        pure (.tcp ⟨← j.nat "srcport", ← j.nat "dstport", ← j.nat "seq", ← j.nat "ack", ← j.nat "off", ← j.nat "res",
                    ← j.nat "flags", ← j.nat "win", ← j.nat "csum", ← j.nat "urg", os⟩ n)
      else if k = "icmp" then pure (.icmp ⟨← j.nat "type", ← j.nat "code", ← j.nat "csum"⟩ n)
      else if k = "echo" then pure (.echo ⟨← j.nat "id", ← j.nat "seq"⟩ n)
      else if k = "unreach" then pure (.unreach ⟨← j.nat "unused", ← j.nat "next_mtu"⟩ n)
      else if k = "time_exceeded" then pure (.timeEx ⟨← j.nat "unused"⟩ n)
      else throw s!"layer kind {k} is not modelled"

def kindOf (s : String) : Except String Kind :=
  if s = "ethernet" then pure .eth else if s = "vlan" then pure .vlan else if s = "arp" then pure .arp
  else if s = "ipv4" then pure .ipv4 else if s = "udp" then pure .udp else if s = "tcp" then pure .tcp
  else if s = "icmp" then pure .icmp else if s = "echo" then pure .echo else if s = "unreach" then pure .unreach
  else if s = "time_exceeded" then pure .timeEx else throw s!"top kind {s} is not modelled"

def hasUnmodelled : Pkt → Option String
  | .unmodelled c _ => some c
  | .eth _ n | .vlan _ n | .arp _ n | .ipv4 _ n | .udp _ n | .tcp _ n | .icmp _ n | .echo _ n | .unreach _ n
  | .timeEx _ n => hasUnmodelled n
  | _ => none

def parsedAndRepack (k : Kind) (raw : Bytes) : Except String (List (String × J)) := do
  let q := parseTop k raw
  match hasUnmodelled q with
  | some c => throw s!"unmodelled:{c}"
  | none =>
    match pack none q with
    | .ok b => pure [("parsed", J.arr (chainJ q)), ("repack", J.ofBytes b)]
    | .error e => pure [("parsed", J.arr (chainJ q)), ("repack_exc", J.str e.toString)]


/-! ## the extended chains (`Model/PacketExt.lean`) -/

def optBytesJ : Option Bytes → J
  | some b => J.ofBytes b
  | none => J.null

def optBytesOf (j : J) (k : String) : Except String (Option Bytes) :=
  match j.get? k with
  | none => pure none
  | some J.null => pure none
  | some v => do pure (some (← v.asBytes))

def tlvJ : Tlv → J
  | .end_ => J.mk [("t", J.ofNat 0)]
  | .chassis st id => J.mk [("t", J.ofNat 1), ("subtype", J.ofNat st), ("id", J.ofBytes id)]
  | .port st id => J.mk [("t", J.ofNat 2), ("subtype", J.ofNat st), ("id", J.ofBytes id)]
  | .ttl v => J.mk [("t", J.ofNat 3), ("ttl", J.ofNat v)]
  | .caps c e => J.mk [("t", J.ofNat 7), ("caps", J.ofNat c), ("en", J.ofNat e)]
  | .mgmt ast addr ins ifn oid => J.mk [("t", J.ofNat 8), ("ast", J.ofNat ast), ("addr", J.ofBytes addr), ("ins", J.ofNat ins),
      ("ifn", J.ofNat ifn), ("oid", J.ofBytes oid)]
  | .org oui st d => J.mk [("t", J.ofNat 127), ("oui", J.ofBytes oui), ("subtype", J.ofNat st), ("payload", J.ofBytes d)]
  | .payload t d => J.mk [("t", J.ofNat t), ("payload", J.ofBytes d)]

def tlvOfJ (j : J) : Except String Tlv := do
  let t ← j.nat "t"
  if t = 0 then pure .end_
  else if t = 1 then pure (.chassis (← j.nat "subtype") (← j.bytes "id"))
  else if t = 2 then pure (.port (← j.nat "subtype") (← j.bytes "id"))
  else if t = 3 then pure (.ttl (← j.nat "ttl"))
  else if t = 7 then pure (.caps (← j.nat "caps") (← j.nat "en"))
  else if t = 8 then pure (.mgmt (← j.nat "ast") (← j.bytes "addr") (← j.nat "ins") (← j.nat "ifn") (← j.bytes "oid"))
  else if t = 127 then pure (.org (← j.bytes "oui") (← j.nat "subtype") (← j.bytes "payload"))
  else pure (.payload t (← j.bytes "payload"))

def greCsumJ : GreCsum → J
  | .absent => J.null
  | .compute => J.bool true
  | .val n => J.ofNat n

def groupJ (g : GroupRec) : J :=
  J.mk [("type", J.ofNat g.type), ("addr", J.ofNat g.addr), ("srcs", J.ofNats g.srcs), ("aux", J.ofBytes g.aux)]

def ripEntryJ (e : RipEntry) : J :=
  J.mk [("af", J.ofNat e.af), ("tag", J.ofNat e.tag), ("ip", J.ofNat e.ip), ("mask", J.ofNat e.mask), ("nh", J.ofNat e.nh),
        ("metric", J.num e.metric)]

def noneJ : J := J.mk [("k", J.str "none")]

def ndOptJ : NdOpt → J
  | .lla t a => J.mk [("t", J.ofNat t), ("addr", J.ofBytes a)]
  | .prefix pl on au v p pre => J.mk [("t", J.ofNat 3), ("plen", J.ofNat pl), ("onlink", J.bool on), ("auto", J.bool au),
      ("valid", J.ofNat v), ("pref", J.ofNat p), ("prefix", J.ofBytes pre)]
  | .mtu v => J.mk [("t", J.ofNat 5), ("mtu", J.ofNat v)]
  | .generic t r => J.mk [("t", J.ofNat t), ("raw", J.ofBytes r)]

def ndOptOfJ (j : J) : Except String NdOpt := do
  let t ← j.nat "t"
  if t = 1 ∨ t = 2 then pure (.lla t (← j.bytes "addr"))
  else if t = 3 then pure (.prefix (← j.nat "plen") (← j.boolean "onlink") (← j.boolean "auto") (← j.nat "valid") (← j.nat "pref")
    (← j.bytes "prefix"))
  else if t = 5 then pure (.mtu (← j.nat "mtu"))
  else pure (.generic t (← j.bytes "raw"))

def ndMsgJ : NdMsg → J
  | .rs os => J.mk [("k", J.str "nd_rs"), ("opts", J.arr (os.map ndOptJ))]
  | .ra hop m o lt rc rt os => J.mk [("k", J.str "nd_ra"), ("hop_limit", J.ofNat hop), ("managed", J.bool m), ("other", J.bool o),
      ("lifetime", J.ofNat lt), ("reachable", J.ofNat rc), ("retrans", J.ofNat rt), ("opts", J.arr (os.map ndOptJ))]
  | .ns tg os => J.mk [("k", J.str "nd_ns"), ("target", J.ofBytes tg), ("opts", J.arr (os.map ndOptJ))]
  | .na r so ov tg os => J.mk [("k", J.str "nd_na"), ("target", J.ofBytes tg), ("opts", J.arr (os.map ndOptJ)), ("router", J.bool r),
      ("solicited", J.bool so), ("override", J.bool ov)]

def dhcpJ (h : Dhcp) : J :=
  J.mk [("k", J.str "dhcp"), ("op", J.ofNat h.op), ("htype", J.ofNat h.htype), ("hlen", J.ofNat h.hlen), ("hops", J.ofNat h.hops),
    ("xid", J.ofNat h.xid), ("secs", J.ofNat h.secs), ("flags", J.ofNat h.flags), ("ciaddr", J.ofNat h.ciaddr),
    ("yiaddr", J.ofNat h.yiaddr), ("siaddr", J.ofNat h.siaddr), ("giaddr", J.ofNat h.giaddr), ("chaddr", J.ofBytes (padTo 16 h.chaddr)),
    ("sname", J.ofBytes (padTo 64 h.sname)), ("file", J.ofBytes (padTo 128 h.file)), ("magic", J.ofBytes h.magic),
    ("options", J.arr (h.opts.map fun (c, v) => J.arr [J.ofNat c, J.ofBytes v]))]

def xchainJ : XPkt → List J
  | .raw b => [J.mk [("k", J.str "bytes"), ("data", J.ofBytes b)]]
  | .nil => [noneJ]
  | .unparsed c r => [J.mk [("k", J.str "unparsed"), ("cls", J.str c), ("raw", J.ofBytes r)]]
  | .unmodelled c r => [J.mk [("k", J.str "unmodelled"), ("cls", J.str c), ("raw", J.ofBytes r)]]
  | .eth h n => (chainJ (.eth h .nil)).take 1 ++ xchainJ n
  | .vlan h n => (chainJ (.vlan h .nil)).take 1 ++ xchainJ n
  | .arp h n => (chainJ (.arp h .nil)).take 1 ++ xchainJ n
  | .ipv4 h n => (chainJ (.ipv4 h .nil)).take 1 ++ xchainJ n
  | .udp h n => (chainJ (.udp h .nil)).take 1 ++ xchainJ n
  | .tcp h n => (chainJ (.tcp h .nil)).take 1 ++ xchainJ n
  | .icmp h n => (chainJ (.icmp h .nil)).take 1 ++ xchainJ n
  | .echo h n => (chainJ (.echo h .nil)).take 1 ++ xchainJ n
  | .unreach h n => (chainJ (.unreach h .nil)).take 1 ++ xchainJ n
  | .timeEx h n => (chainJ (.timeEx h .nil)).take 1 ++ xchainJ n
  | .llc h n => J.mk [("k", J.str "llc"), ("dsap", J.ofNat h.dsap), ("ssap", J.ofNat h.ssap), ("control", J.ofNat h.control),
      ("length", J.ofNat h.length), ("oui", optBytesJ h.oui),
      ("eth_type", if h.oui.isSome then J.ofNat h.ethType else J.null)] :: xchainJ n
  | .mpls h n => J.mk [("k", J.str "mpls"), ("label", J.ofNat h.label), ("tc", J.ofNat h.tc), ("s", J.ofNat h.s),
      ("ttl", J.ofNat h.ttl)] :: xchainJ n
  | .lldp tlvs => [J.mk [("k", J.str "lldp"), ("tlvs", J.arr (tlvs.map tlvJ))], noneJ]
  | .eapol h n => J.mk [("k", J.str "eapol"), ("version", J.ofNat h.version), ("type", J.ofNat h.type),
      ("bodylen", J.ofNat h.bodylen)] :: xchainJ n
  | .eap h n => J.mk [("k", J.str "eap"), ("code", J.ofNat h.code), ("id", J.ofNat h.id), ("length", J.ofNat h.length)]
      :: xchainJ n
  | .ipv6 h n => J.mk [("k", J.str "ipv6"), ("v", J.ofNat h.v), ("tc", J.ofNat h.tc), ("flow", J.ofNat h.flow),
      ("payload_length", J.ofNat h.plen), ("nh", J.ofNat h.nh), ("hop_limit", J.ofNat h.hop), ("srcip", J.ofBytes h.src),
      ("dstip", J.ofBytes h.dst), ("ext", J.arr [])] :: xchainJ n
  | .icmp6 h n => J.mk [("k", J.str "icmpv6"), ("type", J.ofNat h.type), ("code", J.ofNat h.code), ("csum", J.ofNat h.csum)]
      :: xchainJ n
  | .echo6 h n => J.mk [("k", J.str "echo6"), ("id", J.ofNat h.id), ("seq", J.ofNat h.seq)] :: xchainJ n
  | .gre h n => J.mk [("k", J.str "gre"), ("type", J.ofNat h.type), ("ver", J.ofNat h.ver), ("key", J.ofOptNat h.key),
      ("seq", J.ofOptNat h.seq), ("csum", greCsumJ h.csum), ("route_offset", J.ofNat h.routeOffset), ("ssr", J.bool h.ssr),
      ("recursion", J.ofNat h.recursion)] :: xchainJ n
  | .vxlan h n => J.mk [("k", J.str "vxlan"), ("vni", J.ofOptNat h.vni)] :: xchainJ n
  | .igmp h =>
    [if h.vt = 0x22 then
       J.mk [("k", J.str "igmp"), ("vt", J.ofNat h.vt), ("csum", J.ofNat h.csum), ("extra", J.ofBytes h.extra),
             ("groups", J.arr (h.groups.map groupJ))]
     else
       J.mk [("k", J.str "igmp"), ("vt", J.ofNat h.vt), ("mrt", J.ofNat h.mrt), ("csum", J.ofNat h.csum),
             ("addr", J.ofOptNat h.addr), ("extra", J.ofBytes h.extra)], noneJ]
  | .nd m => [ndMsgJ m, noneJ]
  | .toobig6 mtu n => J.mk [("k", J.str "toobig6"), ("mtu", J.ofNat mtu)] :: xchainJ n
  | .timeex6 n => J.mk [("k", J.str "timeex6")] :: xchainJ n
  | .unreach6 u n => J.mk [("k", J.str "unreach6"), ("unused", J.ofNat u)] :: xchainJ n
  | .dhcp h => [dhcpJ h, noneJ]
  | .rip h => [J.mk [("k", J.str "rip"), ("command", J.ofNat h.command), ("version", J.ofNat h.version),
      ("entries", J.arr (h.entries.map ripEntryJ))], noneJ]

def embed : Pkt → XPkt
  | .raw b => .raw b
  | .nil => .nil
  | .unparsed c r => .unparsed c r
  | .unmodelled c r => .unmodelled c r
  | .eth h n => .eth h (embed n)
  | .vlan h n => .vlan h (embed n)
  | .arp h n => .arp h (embed n)
  | .ipv4 h n => .ipv4 h (embed n)
  | .udp h n => .udp h (embed n)
  | .tcp h n => .tcp h (embed n)
  | .icmp h n => .icmp h (embed n)
  | .echo h n => .echo h (embed n)
  | .unreach h n => .unreach h (embed n)
  | .timeEx h n => .timeEx h (embed n)

def natOr (j : J) (k : String) (d : Nat) : Except String Nat :=
  match j.get? k with
  | none => pure d
  | some J.null => pure d
  | some v => v.asNat

def ofChainX : List J → Except String XPkt
  | [] => throw "empty chain (a terminal layer is required)"
  | j :: rest => do
    let k ← j.string "k"
    if k = "bytes" then
      if rest.isEmpty then pure (.raw (← j.bytes "data")) else throw "bytes must be last"
    else if k = "none" then
      if rest.isEmpty then pure .nil else throw "none must be last"
    else if k = "lldp" then
      if rest.length ≤ 1 then pure (.lldp (← (← j.array "tlvs").mapM tlvOfJ)) else throw "lldp carries no payload"
    else if k = "igmp" then
      if rest.length ≤ 1 then do
        let vt ← j.nat "vt"
        let gs ← match j.get? "groups" with
          | some (J.arr a) => a.mapM fun g => do
              pure (⟨← g.nat "type", ← g.nat "addr", ← g.nats "srcs", ← g.bytes "aux"⟩ : GroupRec)
          | _ => pure []
        pure (.igmp ⟨vt, ← natOr j "mrt" 0, ← natOr j "csum" 0, ← j.optNat "addr", gs, ← j.bytes "extra"⟩)
      else throw "igmp carries no payload"
    else if k = "nd_rs" ∨ k = "nd_ra" ∨ k = "nd_ns" ∨ k = "nd_na" then
      if rest.length ≤ 1 then do
        let os ← (← j.array "opts").mapM ndOptOfJ
        if k = "nd_rs" then pure (.nd (.rs os))
        else if k = "nd_ra" then
          pure (.nd (.ra (← j.nat "hop_limit") (← j.boolean "managed") (← j.boolean "other") (← j.nat "lifetime")
            (← j.nat "reachable") (← j.nat "retrans") os))
        else if k = "nd_ns" then pure (.nd (.ns (← j.bytes "target") os))
        else pure (.nd (.na (← j.boolean "router") (← j.boolean "solicited") (← j.boolean "override") (← j.bytes "target") os))
      else throw "an NDP message carries no payload"
    else if k = "dhcp" then
      if rest.length ≤ 1 then do
        let os ← (← j.array "options").mapM fun o => do
          match ← o.asArr with
          | [c, v] => pure (← c.asNat, ← v.asBytes)
          | _ => throw "dhcp option must be [code, hex]"
        pure (.dhcp ⟨← j.nat "op", ← j.nat "htype", ← j.nat "hlen", ← j.nat "hops", ← j.nat "xid", ← j.nat "secs", ← j.nat "flags",
          ← j.nat "ciaddr", ← j.nat "yiaddr", ← j.nat "siaddr", ← j.nat "giaddr", ← j.bytes "chaddr", ← j.bytes "sname",
          ← j.bytes "file", ← j.bytes "magic", os, []⟩)
      else throw "dhcp carries no payload"
    else if k = "rip" then
      if rest.length ≤ 1 then do
        let es ← (← j.array "entries").mapM fun e => do
          pure (⟨← e.nat "af", ← e.nat "tag", ← e.nat "ip", ← e.nat "mask", ← e.nat "nh", ← e.int "metric"⟩ : RipEntry)
        pure (.rip ⟨← j.nat "command", ← j.nat "version", es⟩)
      else throw "rip carries no payload"
    else
      let n ← ofChainX rest
      if k = "llc" then
        pure (.llc ⟨← j.nat "length", ← j.nat "dsap", ← j.nat "ssap", ← j.nat "control", ← optBytesOf j "oui",
                    ← natOr j "eth_type" 0xffff⟩ n)
      else if k = "mpls" then pure (.mpls ⟨← j.nat "label", ← j.nat "tc", ← j.nat "s", ← j.nat "ttl"⟩ n)
      else if k = "eapol" then pure (.eapol ⟨← j.nat "version", ← j.nat "type", ← j.nat "bodylen"⟩ n)
      else if k = "eap" then pure (.eap ⟨← j.nat "code", ← j.nat "id", ← j.nat "length"⟩ n)
      else if k = "ipv6" then
        pure (.ipv6 ⟨← natOr j "v" 6, ← j.nat "tc", ← j.nat "flow", ← natOr j "payload_length" 0, ← j.nat "nh",
                     ← j.nat "hop_limit", ← j.bytes "srcip", ← j.bytes "dstip"⟩ n)
      else if k = "icmpv6" then pure (.icmp6 ⟨← j.nat "type", ← j.nat "code", ← natOr j "csum" 0⟩ n)
      else if k = "echo6" then pure (.echo6 ⟨← j.nat "id", ← j.nat "seq"⟩ n)
      else if k = "gre" then do
        let cs ← match j.get? "csum" with
          | some (J.bool true) => pure GreCsum.compute
          | some (J.num v) => pure (GreCsum.val v.toNat)
          | _ => pure GreCsum.absent
        pure (.gre ⟨← j.nat "type", ← natOr j "ver" 0, ← j.boolean "ssr", ← natOr j "recursion" 0,
                    ← natOr j "route_offset" 0, ← j.optNat "key", ← j.optNat "seq", cs⟩ n)
      else if k = "vxlan" then pure (.vxlan ⟨← j.optNat "vni"⟩ n)
      else if k = "toobig6" then pure (.toobig6 (← j.nat "mtu") n)
      else if k = "timeex6" then pure (.timeex6 n)
      else if k = "unreach6" then pure (.unreach6 (← j.nat "unused") n)
      else
        -- one of the ten original classes: decode the single layer with the original decoder
        match ← ofChain [j, J.mk [("k", J.str "none")]] with
        | .eth h _ => pure (.eth h n)
        | .vlan h _ => pure (.vlan h n)
        | .arp h _ => pure (.arp h n)
        | .ipv4 h _ => pure (.ipv4 h n)
        | .udp h _ => pure (.udp h n)
        | .tcp h _ => pure (.tcp h n)
        | .icmp h _ => pure (.icmp h n)
        | .echo h _ => pure (.echo h n)
        | .unreach h _ => pure (.unreach h n)
        | .timeEx h _ => pure (.timeEx h n)
        | _ => throw s!"layer kind {k} is not modelled"

def xkindOf (s : String) : Except String XKind :=
  if s = "llc" then pure .llc else if s = "mpls" then pure .mpls else if s = "lldp" then pure .lldp
  else if s = "eapol" then pure .eapol else if s = "ipv6" then pure .ipv6 else if s = "gre" then pure .gre
  else if s = "vxlan" then pure .vxlan else if s = "igmp" then pure .igmp else if s = "rip" then pure .rip
  else do pure (.core (← kindOf s))

def hasUnmodelledX : XPkt → Option String
  | .unmodelled c _ => some c
  | .eth _ n | .vlan _ n | .arp _ n | .ipv4 _ n | .udp _ n | .tcp _ n | .icmp _ n | .echo _ n | .unreach _ n
  | .timeEx _ n | .llc _ n | .mpls _ n | .eapol _ n | .eap _ n | .ipv6 _ n | .icmp6 _ n | .echo6 _ n | .gre _ n
  | .vxlan _ n | .toobig6 _ n | .timeex6 n | .unreach6 _ n => hasUnmodelledX n
  | _ => none

def toCore : XPkt → Option Pkt
  | .raw b => some (.raw b)
  | .nil => some .nil
  | .eth h n => (toCore n).map (.eth h)
  | .vlan h n => (toCore n).map (.vlan h)
  | .arp h n => (toCore n).map (.arp h)
  | .ipv4 h n => (toCore n).map (.ipv4 h)
  | .udp h n => (toCore n).map (.udp h)
  | .tcp h n => (toCore n).map (.tcp h)
  | .icmp h n => (toCore n).map (.icmp h)
  | .echo h n => (toCore n).map (.echo h)
  | .unreach h n => (toCore n).map (.unreach h)
  | .timeEx h n => (toCore n).map (.timeEx h)
  | _ => none

def xparsedAndRepack (cfg : XCfg) (k : XKind) (raw : Bytes) : Except String (List (String × J)) := do
  let q := xparseTop cfg k raw
  match hasUnmodelledX q with
  | some c => throw s!"unmodelled:{c}"
  | none =>
    match xpack cfg none q with
    | .ok b => pure [("parsed", J.arr (xchainJ q)), ("repack", J.ofBytes b)]
    | .error (.unmodelled c) => throw s!"unmodelled:{c}"
    | .error e => pure [("parsed", J.arr (xchainJ q)), ("repack_exc", J.str e.toString)]

/-- the answer of the extended model; for chains of the ten original classes it must coincide with the original model
(`packU`/`parseTop`), otherwise the request is answered with an error (= a correspondence failure) -/
def xstack (cfg : XCfg) (top : String) (layers : List J) : Except String J := do
  let k ← xkindOf top
  let p ← ofChainX layers
  match xpackU cfg none p with
  | .error (.unmodelled c) => throw s!"unmodelled:{c}"
  | .error e => pure (J.mk [("exc", J.str e.toString)])
  | .ok (p', bs) =>
    let rest ← xparsedAndRepack cfg k bs
    let ans := J.mk ([("pack", J.ofBytes bs), ("built", J.arr (xchainJ p'))] ++ rest)
    match toCore p, k with
    | some c, .core ck =>
      match packU none c with
      | .ok (c', cbs) =>
        let q := parseTop ck cbs
        -- (bytes that lead the original parser into a class it does not model — an EtherType / protocol of the extended model
        --  over an opaque payload — are compared on the pack side only)
        if cbs = bs ∧ (J.arr (chainJ c')).render = (J.arr (xchainJ p')).render
            ∧ ((hasUnmodelled q).isSome = true ∨ (J.arr (chainJ q)).render = (J.arr (xchainJ (xparseTop cfg k bs))).render)
        then pure ans else throw "original and extended model disagree"
      | .error _ => throw "original and extended model disagree (pack)"
    | _, _ => pure ans

/-- the code variant the harness detected in the tree under test ({"cfg":{"rip_unsigned":b,"eap_body":b}}; absent = /repo as committed) -/
def cfgOf (j : J) : Except String XCfg :=
  match j.get? "cfg" with
  | none => pure XCfg.repo
  | some c => do pure ⟨← c.boolean "rip_unsigned", ← c.boolean "eap_body"⟩

def handle1 (j : J) : Except String J := do
  let op ← j.string "op"
  if op = "cksum" then
    let d ← j.bytes "data"
    let start ← j.nat "start"
    let skip ← j.optNat "skip"
    let z := match skip with
      | some k => zeroWord k d
      | none => d
    pure (J.mk [("code", J.ofNat (checksum d start skip)), ("spec", J.ofNat (rfc1071 z))])
  else if op = "stack" then
    xstack (← cfgOf j) (← j.string "top") (← j.array "layers")
  else if op = "mutparse" then
    -- pack with the model, damage the bytes ("trunc" n | "set" i v), parse the result: the malformed-input stream
    let cfg ← cfgOf j
    let k ← xkindOf (← j.string "top")
    let p ← ofChainX (← j.array "layers")
    match xpackU cfg none p with
    | .error (.unmodelled c) => throw s!"unmodelled:{c}"
    | .error e => pure (J.mk [("exc", J.str e.toString)])
    | .ok (_, bs) =>
      let muts ← j.array "mut"
      let raw ← muts.foldlM (fun (acc : Bytes) (m : J) => do
        let kind ← m.string "m"
        if kind = "trunc" then pure (acc.take (← m.nat "n"))
        else if kind = "set" then
          let i ← m.nat "i"
          let v ← m.nat "v"
          pure (if i < acc.length then acc.set i (UInt8.ofNat v) else acc)
        else throw "unknown mutation") bs
      let rest ← xparsedAndRepack cfg k raw
      -- frames that stay inside the ten original classes must get the same answer from the original chain parser
      match k with
      | .core ck =>
        let q := parseTop ck raw
        if (hasUnmodelled q).isSome = false ∧ (J.arr (chainJ q)).render ≠ (J.arr (xchainJ (xparseTop cfg k raw))).render
        then throw "original and extended model disagree"
        else pure (J.mk ([("raw", J.ofBytes raw)] ++ rest))
      | _ => pure (J.mk ([("raw", J.ofBytes raw)] ++ rest))
  else if op = "parse" then
    let k ← kindOf (← j.string "top")
    pure (J.mk (← parsedAndRepack k (← j.bytes "raw")))
  else if op = "v6ext" then
    let exts ← (← j.array "exts").mapM (fun (e : J) => do
      pure (⟨← e.nat "t", ← e.nat "nh", ← e.nat "plen", ← e.bytes "body"⟩ : IPv6Ext.Ext))
    let nht ← j.nat "nht"
    let payload ← j.bytes "payload"
    let trailer ← j.bytes "trailer"
    let extJ := fun (e : IPv6Ext.Ext) => J.mk [("t", J.ofNat e.ty), ("nh", J.ofNat e.nh), ("plen", J.ofNat e.plen), ("body", J.ofBytes e.body)]
    match IPv6Ext.packExts exts with
    | none => pure (J.mk [("packed", J.null)])
    | some packed =>
      let rest := packed ++ payload ++ trailer
      let r := IPv6Ext.parse rest nht (packed.length + payload.length)
      match r with
      | .ok es t _ _ =>
        pure (J.mk [("packed", J.ofBytes packed), ("res", J.str "ok"), ("exts", J.arr (es.map extJ)), ("nht", J.ofNat t),
                    ("payload", match IPv6Ext.payloadOf rest r with | some b => J.ofBytes b | none => J.null)])
      | .incomplete es | .truncated es =>
        pure (J.mk [("packed", J.ofBytes packed), ("res", J.str "unparsed"), ("exts", J.arr (es.map extJ))])
      | .fuel => throw "model fuel exhausted"
  else throw s!"unknown op {op}"

/-- {"op":"seq","steps":[request,…]} → {"steps":[answer,…]}: the answers a fresh process would give to each request of a call
history (the model has no state, which is what the history is compared against) -/
def handle (j : J) : Except String J := do
  if (← j.string "op") = "seq" then
    let steps ← j.array "steps"
    pure (J.mk [("steps", J.arr (steps.map fun s => match handle1 s with
      | .ok r => r
      | .error e => J.mk [("error", J.str e)]))])
  else handle1 j

def main : IO Unit := serve handle
