import PoxModel.Base.Proto
import PoxModel.Model.MatchV
import PoxModel.Model.FlowTableQ
import PoxModel.Spec.OF10Match
import PoxModel.Spec.OF10Frame
/-! Line-protocol driver for C03: evaluates the model (`Model/Match`, `Model/FlowTable`) and, separately, the specification
(`Spec/OF10Match`) on the inputs the harness also gives to the real code.

Every request carries `"v":[arpLow8, prereqExact, exactSig, tosDscp, arpTypeGuard]`: which of the proposed repairs the code under test has.

* `{"op":"pairs","phdr":P,"port":n,"matches":[{"rec":[13 numbers],"wire":bool},…]}`
    → `{"pm":[wildcards, 12 views (null = wildcarded)], "hdr":[12 spec headers], "res":[[wildcards, matched, specMatched],…]}`
* `{"op":"subsume","pairs":[{"a":rec,"b":rec,"wire":bool,"a2":rec?},…]}` → `{"res":[[matchesWith true a b, Spec.subsumes, a == b, matchesWith false (a2 | a) b],…]}`
* `{"op":"table","entries":[[priority, rec],…],"frames":[{"phdr":P,"port":n},…]}`
    → `{"order":[original index…],"eff":[effective priority…],"exact":[is_exact per original entry…],"lookups":[original index | null…],
        "spec":[[matchHdr per original entry…] per frame],"rank":[Spec.rankSig per original entry]}`

* `{"op":"tableops","sm":bool,"ops":[["add",id,priority,rec,idle_s,hard_s,now_ms,out?] | ["remove",id] | ["rm_match",rec,priority,strict] |
     ["expire",now_ms] | ["lookup",P,port] | ["q","select",rec,out_port|null] | ["q","all"] | ["q","other"],…]}`
    → `{"trace":[["t",raised,[ids in table order]] | ["l",id|null] | ["q",raised,[ids in table order],[ids the query reports on, table order]],…]}`
    (`out` = the port of the entry's output action, null/absent = no output action; a `"q"` op is a call that only reads:
    `TableOps.Query`, `TableOps.stepC`)

* `{"op":"selfflow","phdr":P,"port":n|null,"swport":n,"sf":bool,"blank":[1..12]?}` → `{"m":[wildcards, 12 views],"wire":rec,"m2w":wildcards after
     unpack,"hit":0|1,"exact":0|1,"spec":0|1}`

`"sphdr": hex` next to a `"phdr"` (pairs, table frames, selfflow): the standard (`hdr`, `spec`) is evaluated on that frame's bytes instead of on
the model's description.

`P = hex string of the frame's bytes (complete frames: description by `Spec.Frame.parse`) | {"src","dst","typ","llc":null|[oui|null,ethType],"vlan":null|[id,pcp,ethType],"l3":null|["ip",s,d,proto,tos,frag,l4]|["arp",op,s,d]}`,
`l4 = null|["p",src,dst]|["i",type,code]`; `rec = [wildcards,in_port,dl_src,dl_dst,dl_vlan,dl_vlan_pcp,dl_type,nw_tos,nw_proto,nw_src,nw_dst,tp_src,tp_dst]`. -/
open Pox Pox.Proto Pox.OF

def bad {α : Type} (s : String) : Except String α := .error s

def recOf (j : J) : Except String OfMatch := do
  match ← j.asNats with
  | [w, ip, s, d, vl, pcp, ty, tos, pr, ns, nd, ts, td] =>
    pure { wildcards := w, inPort := ip, dlSrc := s, dlDst := d, dlVlan := vl, dlVlanPcp := pcp, dlType := ty, nwTos := tos,
           nwProto := pr, nwSrc := ns, nwDst := nd, tpSrc := ts, tpDst := td }
  | _ => bad "rec: 13 numbers expected"

def l4Of (j : J) : Except String L4 := do
  if j.isNull then return .none
  match ← j.asArr with
  | [J.str "p", a, b] => pure (.ports (← a.asNat) (← b.asNat))
  | [J.str "i", a, b] => pure (.icmp (← a.asNat) (← b.asNat))
  | _ => bad "l4"

def l3Of (j : J) : Except String L3 := do
  if j.isNull then return .other
  match ← j.asArr with
  | [J.str "ip", s, d, pr, tos, fr, l4] =>
    pure (.ipv4 (← s.asNat) (← d.asNat) (← pr.asNat) (← tos.asNat) (← fr.asBool) (← l4Of l4))
  | [J.str "arp", op, s, d] => pure (.arp (← op.asNat) (← s.asNat) (← d.asNat))
  | _ => bad "l3"

/-- a frame is given either as its bytes (hex string; the description is then read off the bytes by `Spec.Frame.parse`, and the
    frame must be complete) or — for incomplete frames, where only model and code are compared — as a description -/
def phdrOf (j : J) : Except String PHdr := do
  if let J.str s := j then
    match Pox.Proto.fromHex s with
    | none => return ← bad "frame: hex expected"
    | some bs =>
      match Spec.Frame.parse (bs.map (·.toNat)) with
      | some (p, true) => return p
      | _ => return ← bad "frame: not complete (Spec.Frame.parse)"
  let llcJ ← j.get "llc"
  let llc : Option Llc ← (if llcJ.isNull then pure none else do
    match ← llcJ.asArr with
    | [o, t] => pure (some { snapOui := (← (if o.isNull then pure none else do pure (some (← o.asNat)))), ethType := (← t.asNat) })
    | _ => bad "llc")
  let vJ ← j.get "vlan"
  let vlan : Option Vlan ← (if vJ.isNull then pure none else do
    match ← vJ.asNats with
    | [i, p, t] => pure (some { id := i, pcp := p, ethType := t })
    | _ => bad "vlan")
  pure { src := (← j.nat "src"), dst := (← j.nat "dst"), typ := (← j.nat "typ"), llc := llc, vlan := vlan, l3 := (← l3Of (← j.get "l3")) }

/-- the description the STANDARD is evaluated on: `"sphdr"` (the frame's bytes) when the request carries one — the harness sends it when it
    gives the model another description than the bytes' (open findings about what the packet library makes of a frame) —, else the model's -/
def specPhdr (j : J) (p : PHdr) : Except String PHdr :=
  match j.get? "sphdr" with
  | some x => phdrOf x
  | none => pure p

/-- `"v":[arpLow8, prereqExact, exactSig, tosDscp, arpTypeGuard]` — which repairs the code under test has (`Model/MatchV.lean`) -/
def variantOf (j : J) : Except String Variant := do
  match ← j.array "v" with
  | [a, b, c, d] => pure { arpLow8 := (← a.asBool), prereqExact := (← b.asBool), exactSig := (← c.asBool), tosDscp := (← d.asBool) }
  | [a, b, c, d, e] => pure { arpLow8 := (← a.asBool), prereqExact := (← b.asBool), exactSig := (← c.asBool), tosDscp := (← d.asBool),
                              arpTypeGuard := (← e.asBool) }
  | _ => bad "v: four or five booleans expected"

def jb (b : Bool) : J := J.num (if b then 1 else 0)

def viewsOf (m : OfMatch) : List J :=
  [J.ofOptNat (m.view .inPort), J.ofOptNat (m.view .dlSrc), J.ofOptNat (m.view .dlDst), J.ofOptNat (m.view .dlVlan),
   J.ofOptNat (m.view .dlVlanPcp), J.ofOptNat (m.view .dlType), J.ofOptNat (m.view .nwTos), J.ofOptNat (m.view .nwProto),
   J.ofOptNat (m.srcView.map (·.1)), J.ofOptNat (m.dstView.map (·.1)), J.ofOptNat (m.view .tpSrc), J.ofOptNat (m.view .tpDst)]

def hdrList (h : Spec.Headers) : List Nat :=
  [h.inPort, h.dlSrc, h.dlDst, h.dlVlan, h.dlVlanPcp, h.dlType, h.nwTos, h.nwProto, h.nwSrc, h.nwDst, h.tpSrc, h.tpDst]

def doPairs (j : J) : Except String J := do
  let p ← phdrOf (← j.get "phdr")
  let port ← j.nat "port"
  let v ← variantOf j
  let pm := v.pktMatch p port
  let h := Spec.headers (← specPhdr j p) port
  let res ← (← j.array "matches").mapM fun mj => do
    let r ← recOf (← mj.get "rec")
    let m := if (← mj.boolean "wire") then v.ofWire r else r
    pure (J.arr [J.num m.wildcards, jb (v.mww false m pm), jb (Spec.matchHdr r h)])
  pure (J.mk [("pm", J.arr (J.num pm.wildcards :: viewsOf pm)), ("hdr", J.ofNats (hdrList h)), ("res", J.arr res)])

def doSubsume (j : J) : Except String J := do
  let v ← variantOf j
  let res ← (← j.array "pairs").mapM fun pj => do
    let a ← recOf (← pj.get "a")
    let b ← recOf (← pj.get "b")
    let w ← pj.boolean "wire"
    let (ma, mb) := if w then (v.ofWire a, v.ofWire b) else (a, b)
    -- `"a2"` (optional): the match the lenient test is evaluated on instead of `a` (the harness uses it to mirror how the address
    -- class compares an all-zero MAC with "no value"; correspondence-only observable, see harness/c03.py)
    let a2 ← (match pj.get? "a2" with | some x => recOf x | none => pure a)
    let ma2 := if w then v.ofWire a2 else a2
    pure (J.arr [jb (v.mww true ma mb), jb (Spec.subsumes a b), jb (OfMatch.eqMatch ma mb), jb (v.mww false ma2 mb)])
  pure (J.mk [("res", J.arr res)])

def doTable (j : J) : Except String J := do
  let v ← variantOf j
  let ents ← (← j.array "entries").mapM fun ej => do
    match ← ej.asArr with
    | [pr, r] => pure ((← pr.asNat), (← recOf r))
    | _ => bad "entry"
  let flows : List Spec.Flow := ents.map fun (pr, r) => { priority := pr, mtch := r }
  -- payload = original index
  let es : List (Entry Nat) := ents.zipIdx.map fun ((pr, r), i) => { priority := pr, mtch := v.ofWire r, data := i }
  let tbl ← es.foldlM (fun t e => match addEntryBy? v.effectivePriority e t with
    | some t' => pure t'
    | none => bad "IndexError") ([] : Table Nat)
  let frames ← (← j.array "frames").mapM fun fj => do pure ((← phdrOf (← fj.get "phdr")), (← fj.nat "port"))
  let sframes ← (← j.array "frames").mapM fun fj => do pure ((← specPhdr fj (← phdrOf (← fj.get "phdr"))), (← fj.nat "port"))
  let lookups := (v.lookupSeq tbl frames).map fun r => J.ofOptNat (r.map (·.data))
  let spec := sframes.map fun (p, port) => J.arr (flows.map fun f => jb (Spec.matchHdr f.mtch (Spec.headers p port)))
  pure (J.mk [("order", J.ofNats (tbl.map (·.data))), ("eff", J.ofNats (tbl.map v.effectivePriority)),
              ("exact", J.arr (es.map fun e => jb (!v.isWildcarded e.mtch))), ("lookups", J.arr lookups), ("spec", J.arr spec), ("rank", J.ofNats (flows.map Spec.rankSig))])

/-- payload of a table entry in `tableops`: identity and the timeout data `remove_expired_entries` looks at (milliseconds) -/
structure TD where
  id : Nat
  idle : Nat
  hard : Nat
  created : Nat
  out : Option Nat := none      -- port of the entry's output action (what an `out_port` filter looks at)

/-- `is_idle_timed_out(now) or is_hard_timed_out(now)` for an entry that was never touched -/
def deadAt (now : Nat) (e : Entry TD) : Bool :=
  (e.data.idle > 0 && now - e.data.created > e.data.idle * 1000) || (e.data.hard > 0 && now - e.data.created > e.data.hard * 1000)

def doTableOps (j : J) : Except String J := do
  let v ← variantOf j
  let sm ← j.boolean "sm"            -- strict test of is_matched_by: both-ways encompassing (HEAD) or `==`
  let ops ← j.array "ops"
  let (_, out) ← ops.foldlM (fun (acc : Table TD × List J) oj => do
    let (tbl, out) := acc
    let a ← oj.asArr
    let ids := fun (t : Table TD) => J.ofNats (t.map (·.data.id))
    match a with
    | [J.str "add", id, pr, r, idle, hard, now] =>
      let e : Entry TD := { priority := (← pr.asNat), mtch := v.ofWire (← recOf r),
                            data := { id := (← id.asNat), idle := (← idle.asNat), hard := (← hard.asNat), created := (← now.asNat) } }
      let (t, raised) := TableOps.stepC v.effectivePriority v.mww sm tbl (.op (.add e))
      pure (t, J.arr [J.str "t", jb raised, ids t] :: out)
    | [J.str "add", id, pr, r, idle, hard, now, op] =>
      let o ← (if op.isNull then pure none else do pure (some (← op.asNat)))
      let e : Entry TD := { priority := (← pr.asNat), mtch := v.ofWire (← recOf r),
                            data := { id := (← id.asNat), idle := (← idle.asNat), hard := (← hard.asNat), created := (← now.asNat), out := o } }
      let (t, raised) := TableOps.stepC v.effectivePriority v.mww sm tbl (.op (.add e))
      pure (t, J.arr [J.str "t", jb raised, ids t] :: out)
    | J.str "q" :: rest =>
      let q : TableOps.Query TD ← (match rest with
        | [J.str "select", r, op] => do
          let m := v.ofWire (← recOf r)
          if op.isNull then pure (TableOps.Query.select m (fun _ => true))
          else do
            let k ← op.asNat
            pure (TableOps.Query.select m (fun d => d.out == some k))
        | [J.str "all"] => pure TableOps.Query.all
        | [J.str "other"] => pure TableOps.Query.other
        | _ => bad "tableops: q")
      let (t, raised) := TableOps.stepC v.effectivePriority v.mww sm tbl (.query q)
      pure (t, J.arr [J.str "q", jb raised, ids t, ids (TableOps.answer v.mww sm tbl q)] :: out)
    | [J.str "remove", id] =>
      let k ← id.asNat
      let i := tbl.findIdx (fun e => e.data.id == k)          -- `tbl.length` when the object is not in the table
      let (t, raised) := TableOps.stepC v.effectivePriority v.mww sm tbl (.op (.removeAt i))
      pure (t, J.arr [J.str "t", jb raised, ids t] :: out)
    | [J.str "rm_match", r, pr, strict] =>
      let (t, raised) := TableOps.stepC v.effectivePriority v.mww sm tbl (.op (.removeMatching (v.ofWire (← recOf r)) (← pr.asNat) (← strict.asBool) (fun _ => true)))
      pure (t, J.arr [J.str "t", jb raised, ids t] :: out)
    | [J.str "expire", now] =>
      let n ← now.asNat
      let (t, raised) := TableOps.stepC v.effectivePriority v.mww sm tbl (.op (.expire (deadAt n)))
      pure (t, J.arr [J.str "t", jb raised, ids t] :: out)
    | [J.str "lookup", ph, port] =>
      let hit := (v.entryForPacket tbl (← phdrOf ph) (← port.asNat)).map (·.data.id)
      pure (tbl, J.arr [J.str "l", J.ofOptNat hit] :: out)
    | _ => bad "tableops: op") (([] : Table TD), ([] : List J))
  pure (J.mk [("trace", J.arr out.reverse)])

def recList (m : OfMatch) : List Nat :=
  [m.wildcards, m.inPort, m.dlSrc, m.dlDst, m.dlVlan, m.dlVlanPcp, m.dlType, m.nwTos, m.nwProto, m.nwSrc, m.nwDst, m.tpSrc, m.tpDst]

/-- the flow a controller builds from a packet: `from_packet(p, in_port, spec_frags)`, `pack(flow_mod=True)`, and what the switch
    makes of it (`unpack(flow_mod=True)`, lookup test against the switch's own `from_packet(spec_frags=True)`, exactness) -/
def doSelfFlow (j : J) : Except String J := do
  let p ← phdrOf (← j.get "phdr")
  let port ← j.optNat "port"
  let swPort ← j.nat "swport"
  let sf ← j.boolean "sf"
  let v ← variantOf j
  -- `"blank":[field numbers 1..12]`: attributes the controller sets back to `None` before packing
  let blank ← (match j.get? "blank" with | some b => b.asNats | none => pure [])
  let o0 := v.pktHeaders sf p port
  let keep := fun (i : Nat) (x : Option Nat) => if blank.contains i then none else x
  let o : OHeaders := { inPort := keep 1 o0.inPort, dlSrc := keep 2 o0.dlSrc, dlDst := keep 3 o0.dlDst, dlVlan := keep 4 o0.dlVlan,
                        dlVlanPcp := keep 5 o0.dlVlanPcp, dlType := keep 6 o0.dlType, nwTos := keep 7 o0.nwTos, nwProto := keep 8 o0.nwProto,
                        nwSrc := keep 9 o0.nwSrc, nwDst := keep 10 o0.nwDst, tpSrc := keep 11 o0.tpSrc, tpDst := keep 12 o0.tpDst }
  let m := fromHeaders o
  let wire := packFlowMod m
  let m2 := v.ofWire wire
  pure (J.mk [("m", J.arr (J.num m.wildcards :: viewsOf m)), ("wire", J.ofNats (recList wire)), ("m2w", J.num m2.wildcards),
              ("hit", jb (v.mww false m2 (v.pktMatch p swPort))), ("exact", jb (!v.isWildcarded m2)),
              ("spec", jb (Spec.matchHdr wire (Spec.headers (← specPhdr j p) swPort)))])

def handle (j : J) : Except String J := do
  match ← j.string "op" with
  | "pairs" => doPairs j
  | "subsume" => doSubsume j
  | "table" => doTable j
  | "tableops" => doTableOps j
  | "selfflow" => doSelfFlow j
  | o => bad s!"unknown op {o}"

def main : IO Unit := serve handle
