import PoxModel.Base.Proto
import PoxModel.Model.Addr
open Pox Pox.Proto Pox.Addr

/-! Line-protocol driver for the address model (C16).  Text travels as the hex of its ASCII bytes (key names ending in
`t`/`net`/`arg`), raw addresses as hex, numbers as JSON integers.  A Python exception is answered as `{"exc": <class>}`. -/

def errName : Err → String
  | .runtime => "RuntimeError" | .value => "ValueError" | .os => "OSError" | .assertion => "AssertionError"
  | .struct => "error" | .index => "IndexError" | .fuel => "MODEL-FUEL"

def txt (b : Bytes) : Str := b.map fun x => Char.ofNat x.toNat
def untxt (s : Str) : Bytes := s.map fun c => UInt8.ofNat c.toNat
def jtxt (s : Str) : J := J.ofBytes (untxt s)
/-- text arrives as the hex of its UTF-8 encoding and is handed to the model as code points, losslessly -/
def utxt (b : Bytes) : Except String Str :=
  match String.fromUTF8? (ByteArray.mk b.toArray) with
  | some s => pure s.toList
  | none => .error "text: invalid UTF-8"

def exc (e : Err) : J := J.mk [("exc", J.str (errName e))]

def lift {α} (r : Except Err α) (k : α → Except String J) : Except String J :=
  match r with
  | .error e => pure (exc e)
  | .ok a => k a

def ip4View (x : IP4) : J :=
  J.mk [("raw", J.ofBytes x.raw), ("value", J.num x.value), ("str", jtxt x.toStr),
        ("un", J.ofNat (x.toUnsigned true)), ("uh", J.ofNat (x.toUnsigned false)),
        ("sn", J.num (x.toSigned true)), ("sh", J.num (x.toSigned false)), ("hash", J.num x.hash)]

def getIP4 (j : J) (k : String) : Except String IP4 := do
  match IP4.ofRaw (← j.bytes k) with
  | .ok x => pure x
  | .error _ => .error s!"{k}: 4 raw bytes expected"

def get16 (j : J) (k : String) : Except String Bytes := do
  let b ← j.bytes k
  if b.length = 16 then pure b else .error s!"{k}: 16 raw bytes expected"

def optBool (j : J) (k : String) : Except String (Option Bool) :=
  match j.get? k with
  | none => pure none
  | some .null => pure none
  | some v => do pure (some (← v.asBool))

def netJ {α} (f : α → J) (r : α × Nat) : J := J.mk [("addr", f r.1), ("bits", J.ofNat r.2)]

/-- which of the repairs `fixes/C16_{ip6_text,eth_text,cidr,eth_seq}.diff` the tree under test has (read off its source by the
    harness): `"var": [ip6, eth, cidr, seq]`; absent = the code without them -/
structure Variant where
  ip6 : Bool := false
  eth : Bool := false
  cidr : Bool := false
  seq : Bool := false

def getVariant (j : J) : Except String Variant :=
  match j.get? "var" with
  | none => pure {}
  | some v => do
    match ← (← v.asArr).mapM J.asBool with
    | [a, b, c, d] => pure { ip6 := a, eth := b, cidr := c, seq := d }
    | _ => .error "var: four booleans expected"

def handle1 (j : J) : Except String J := do
  let op ← j.string "op"
  let var ← getVariant j
  let p6 : Str → Except Err Bytes := if var.ip6 then parse6S else parse6
  let pc4 : Str → Bool → Bool → Except Err (IP4 × Nat) := if var.cidr then parseCidrS else parseCidr
  let pc6 : Str → Bool → Except Err (Bytes × Nat) := if var.cidr then parseCidr6SWith p6 else parseCidr6With p6
  match op with
  | "ip4_text" => lift (IP4.ofText (← utxt (← j.bytes "t"))) fun x => pure (ip4View x)
  | "ip4_raw" => lift (IP4.ofRaw (← j.bytes "raw")) fun x => pure (ip4View x)
  | "ip4_int" => pure (ip4View (IP4.ofInt (← j.int "n") (← j.boolean "order")))
  | "ip4_cmp" =>
    let a ← getIP4 j "a"; let b ← getIP4 j "b"
    pure (J.mk [("eq", J.bool (a.eq b)), ("lt", J.bool (a.lt b)), ("gt", J.bool (b.lt a))])
  | "ip4_mask" =>
    lift (cidrToNetmask (← j.nat "bits")) fun m =>
      lift (netmaskToCidr m) fun c => pure (J.mk [("mask", J.ofBytes m.raw), ("back", J.ofNat c)])
  | "ip4_nm2cidr" => lift (netmaskToCidr (← getIP4 j "raw")) fun c => pure (J.mk [("bits", J.ofNat c)])
  | "ip4_innet" =>
    let n ← getIP4 j "n"; let b ← j.nat "b"
    let as ← (← j.array "as").mapM fun x => do
      match IP4.ofRaw (← x.asBytes) with
      | .ok a => pure a
      | .error _ => .error "as: 4 raw bytes expected"
    lift (as.mapM fun a => inNetwork a n b) fun rs => pure (J.mk [("in", J.arr (rs.map J.bool))])
  | "ip4_innet_text" =>
    lift (inNetworkTextWith pc4 (← getIP4 j "a") (← utxt (← j.bytes "net"))) fun r => pure (J.mk [("in", J.bool r)])
  | "ip4_parse_cidr" =>
    lift (pc4 (← utxt (← j.bytes "t")) (← j.boolean "infer") (← j.boolean "allow_host")) fun r =>
      pure (netJ (fun (x : IP4) => J.ofBytes x.raw) r)
  | "ip4_getnet" =>
    lift (getNetworkWith pc4 (← getIP4 j "a") (← utxt (← j.bytes "arg"))) fun r => pure (netJ (fun (x : IP4) => J.ofBytes x.raw) r)
  | "ip4_infer" => pure (J.mk [("bits", J.ofNat (inferNetmask (← getIP4 j "a")))])
  | "ip6_text" =>
    lift (p6 (← utxt (← j.bytes "t"))) fun a => pure (J.mk [("raw", J.ofBytes a), ("str", jtxt (str6 a))])
  | "ip6_str" =>
    let a ← get16 j "raw"
    let opts : List (Bool × Bool × Option Bool) :=
      [true, false].flatMap fun zd => [true, false].flatMap fun sd => [none, some true, some false].map fun v4 => (zd, sd, v4)
    pure (J.mk [("strs", J.arr (opts.map fun (zd, sd, v4) => jtxt (toStr6 a zd sd v4))),
                ("num", J.ofNat (num6 a)), ("mapped", J.bool (isV4Mapped a))])
  | "ip6_mask" =>
    lift (cidrToNetmask6 (← j.nat "bits")) fun m =>
      lift (netmaskToCidr6 m) fun c => pure (J.mk [("mask", J.ofBytes m), ("back", J.ofNat c)])
  | "ip6_nm2cidr" => lift (netmaskToCidr6 (← get16 j "raw")) fun c => pure (J.mk [("bits", J.ofNat c)])
  | "ip6_innet" =>
    let n ← get16 j "n"; let b ← j.nat "b"
    let as ← (← j.array "as").mapM fun x => do
      let a ← x.asBytes
      if a.length = 16 then pure a else .error "as: 16 raw bytes expected"
    lift (as.mapM fun a => inNetwork6 a n b) fun rs => pure (J.mk [("in", J.arr (rs.map J.bool))])
  | "ip6_innet_text" =>
    lift (inNetwork6TextWith pc6 (← get16 j "a") (← utxt (← j.bytes "net"))) fun r => pure (J.mk [("in", J.bool r)])
  | "ip6_parse_cidr" =>
    lift (pc6 (← utxt (← j.bytes "t")) (← j.boolean "allow_host")) fun r => pure (netJ J.ofBytes r)
  | "bytes_cmp" =>
    let a ← j.bytes "a"; let b ← j.bytes "b"
    pure (J.mk [("eq", J.bool (a == b)), ("lt", J.bool (bytesLt a b)), ("gt", J.bool (bytesLt b a))])
  | "eth_text" =>
    lift ((if var.eth then ethOfTextS else ethOfText) (txt (← j.bytes "t"))) fun b =>
      pure (J.mk [("raw", J.ofBytes b), ("str", jtxt (ethToStr ':' b)), ("dash", jtxt (ethToStr '-' b))])
  | "eth_raw" =>
    let b ← j.bytes "raw"
    pure (J.mk [("raw", J.ofBytes b), ("str", jtxt (ethToStr ':' b)), ("dash", jtxt (ethToStr '-' b))])
  | "eth_seq" =>
    lift ((if var.seq then ethOfSeqS else ethOfSeq) (← (← j.get "vals").asInts)) fun b => pure (J.mk [("raw", J.ofBytes b)])
  | "dpid_str" =>
    lift (dpidToStr (← j.nat "d") (← j.boolean "long")) fun s =>
      lift (strToDpid s) fun d => pure (J.mk [("str", jtxt s), ("back", J.ofNat d)])
  | "dpid_parse" => lift (strToDpid (← utxt (← j.bytes "t"))) fun d => pure (J.mk [("d", J.ofNat d)])
  | "int" => lift (pyInt (← j.nat "base") (← utxt (← j.bytes "t"))) fun v => pure (J.mk [("v", J.num v)])
  | _ => .error s!"unknown op {op}"

/-- `{"op":"calls","calls":[…]}`: a sequence of calls made one after the other in the same Python process.  The model is a
    set of pure functions, so each call is answered on its own — which is the point of the comparison: in the real code
    no result may depend on what was called before. -/
def handle (j : J) : Except String J := do
  match j.get? "calls" with
  | some cs => do
    let rs ← (← cs.asArr).mapM fun c => pure (match handle1 c with
      | .ok r => r
      | .error e => J.mk [("error", J.str e)])
    pure (J.mk [("results", J.arr rs)])
  | none => handle1 j

def main : IO Unit := serve handle
