import PoxModel.Base.Proto
import PoxModel.Model.Conn
import PoxModel.Model.ConnL
import PoxModel.Model.ConnH
open Pox Pox.Proto Pox.Conn

def parseMsg (j : J) : Except String Msg := do
  let k ← j.string "m"
  if k = "hello" then pure .hello
  else if k = "features_reply" then pure (.featuresReply (← j.nat "d"))
  else if k = "stats_desc" then pure .statsDesc
  else if k = "barrier_reply" then pure (.barrierReply (← j.nat "x"))
  else if k = "error" then pure (.error (← j.nat "x") (← j.nat "ty") (← j.nat "code"))
  else if k = "port_status" then pure (.portStatus (← j.nat "x"))
  else if k = "echo_request" then pure (.echoRequest (← j.nat "x"))
  else if k = "packet_in" then pure (.packetIn (← j.nat "x"))
  else if k = "echo_reply" then pure (.echoReply (← j.nat "x"))
  else throw s!"unknown message {k}"

def parseOp (j : J) : Except String Op := do
  let k ← j.string "op"
  if k = "connect" then pure .connect
  else if k = "msg" then pure (.msg (← j.nat "c") (← parseMsg j))
  else if k = "eof" then pure (.eof (← j.nat "c"))
  else if k = "disc" then pure (.disc (← j.nat "c"))
  else if k = "sockfail" then pure (.sockFail (← j.nat "c"))
  else if k = "sendto" then pure (.sendTo (← j.nat "d") (← j.nat "x"))
  else throw s!"unknown op {k}"

def kindName : EvKind → String
  | .handshakeComplete => "ConnectionHandshakeComplete" | .up => "ConnectionUp" | .features => "FeaturesReceived"
  | .portStatus => "PortStatus" | .down => "ConnectionDown" | .packetIn => "PacketIn" | .errorIn => "ErrorIn"
  | .barrierIn => "BarrierIn" | .rawStats => "RawStatsReply" | .switchDesc => "SwitchDescReceived"

def outJ : Out → J
  | .ev e => J.arr [J.str (if e.nexus then "nexus" else "con"), J.str (kindName e.kind), J.ofNat e.con, J.ofNat e.arg]
  | .sent c ty x => J.arr [J.str "sent", J.ofNat c, J.ofNat ty, J.ofNat x]
  | .reg k c => J.arr [J.str "reg", J.ofOptNat k, J.ofNat c]
  | .sendRet b => J.arr [J.str "ret", J.bool b]
  | .closed c => J.arr [J.str "closed", J.ofNat c]

def parseCfg (j : J) : Except String Cfg :=
  match j.get? "cfg" with
  | none => throw "missing cfg (the harness reads the variant off the source)"
  | some c => do pure ⟨← c.boolean "d3", ← c.boolean "down", ← c.boolean "read", ← c.boolean "err", ← c.boolean "dpid"⟩

/-- request {"ops":[…],"dpids":[…], "listeners"?:{up:"send"|"sendto"|"disc"|null, down:"sendto"|null, stop:bool}, "halting"?:{event name: outcome}, "cfg":{d3,down,read,err,dpid}} → {"steps":[[out…]…] (chronological), "reg":[[d, c|null]…],
    "regnone": c|null, "conns":[{dpid,up,disc,down_raised,closed}…], "next_xid":n} -/
def parseLst (j : J) : Except String Lst :=
  match j.get? "listeners" with
  | none => pure Lst.none
  | some l => do
    let up ← match l.get? "up" with
      | none => pure none
      | some J.null => pure none
      | some u => do
        let k ← u.asStr
        if k = "send" then pure (some UpAct.send) else if k = "sendto" then pure (some UpAct.sendTo)
        else if k = "disc" then pure (some UpAct.disc) else throw s!"unknown up listener {k}"
    let down ← match l.get? "down" with
      | none => pure false
      | some J.null => pure false
      | some d => do
        let k ← d.asStr
        if k = "sendto" then pure true else throw s!"unknown down listener {k}"
    pure { up := up, down := down, stopIfDisc := (← l.boolean "stop") }

def allKinds : List EvKind :=
  [.handshakeComplete, .up, .features, .portStatus, .down, .packetIn, .errorIn, .barrierIn, .rawStats, .switchDesc]

def parseBeh (s : String) : Except String Beh :=
  if s = "cont" then pure .cont else if s = "halt" then pure .halt else if s = "haltremove" then pure .haltRemove
  else if s = "remove" then pure .remove else throw s!"unknown listener outcome {s}"

/-- "halting"?: {"<event name>": "cont"|"halt"|"haltremove"|"remove", …} — the outcome of the last nexus-level listener of that kind -/
def parseHalt (j : J) : Except String HaltCfg :=
  match j.get? "halting" with
  | none => pure HaltCfg.none
  | some hj => do
    match hj with
    | J.obj kv =>
      for (k, _) in kv do
        if !(allKinds.any fun e => kindName e = k) then throw s!"unknown event kind {k}"
    | _ => throw "halting: object expected"
    let tab ← allKinds.mapM fun k => do
      match hj.get? (kindName k) with
      | none => pure (k, Beh.cont)
      | some v => pure (k, ← parseBeh (← v.asStr))
    pure fun k => (tab.lookup k).getD .cont

def handle (j : J) : Except String J := do
  let cfg ← parseCfg j
  let lst ← parseLst j
  let hlt ← parseHalt j
  let ops ← (← j.array "ops").mapM parseOp
  let dpids ← j.nats "dpids"
  let (s, tr) := runL cfg lst ops
  pure (J.mk [
    ("steps", J.arr ((haltSteps hlt Act.all (stepOuts tr)).map fun st => J.arr (st.map outJ))),
    ("reg", J.arr (dpids.map fun d => J.arr [J.ofNat d, J.ofOptNat (s.reg (some d))])),
    ("regnone", J.ofOptNat (s.reg none)),
    ("conns", J.arr ((List.range s.n).map fun c =>
      let k := s.conns c
      J.mk [("dpid", J.ofOptNat k.dpid), ("up", J.bool k.up), ("disc", J.bool k.disc),
            ("down_raised", J.bool k.downRaised), ("closed", J.bool k.closed)])),
    ("next_xid", J.ofNat s.nextXid)])

def main : IO Unit := serve handle
