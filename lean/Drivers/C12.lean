import PoxModel.Base.Proto
import PoxModel.Model.Actions
import PoxModel.Spec.ActionsSpec
open Pox Pox.Proto Pox.Packet Pox.Actions

/-! Line-protocol driver for C12.

  {"var":{"d7":b,"d8":b,"c121":b,"c122":b}, "ports":[{"no":n,"hw":hex,"config":n,"state":n},…], "bufs":n (max_buffers, default 4096),
   "miss":n (the constructor's miss_send_len, default 128), "ops":[op,…]}
    op = {"op":"portmod","port":n,"hw":hex,"config":n,"mask":n} | {"op":"setconfig","flags":n,"miss":n}
       | {"op":"flow","in_port":n|null,"acts":[act,…]} | {"op":"pktout","in_port":n,"acts":[act,…],"data":hex}
       | {"op":"stats","port":n|null} | {"op":"features"}   (read-outs: [{"k":"stats","ports":[…]}] / [{"k":"features","ports":[…]}])
       | {"op":"rx","port":n,"data":hex[,"nopd":true]} | {"op":"link","port":n,"down":b}
    act = {"a":"output","port":n,"max_len":n} | {"a":"set_vlan_vid","v":n} | {"a":"set_vlan_pcp","v":n} | {"a":"strip_vlan"}
        | {"a":"set_dl_src","v":hex} | {"a":"set_dl_dst","v":hex} | {"a":"set_nw_src","v":n} | {"a":"set_nw_dst","v":n}
        | {"a":"set_nw_tos","v":n} | {"a":"set_tp_src","v":n} | {"a":"set_tp_dst","v":n}
        | {"a":"enqueue","port":n,"queue":n} | {"a":"vendor","v":n}
  → {"outs":[[out,…] per completed op], "exc":null|"TypeError"|…, "ports":[{"no","config","state","rx_p","rx_b","tx_p","tx_b"}],
     "spec":[null | [out,…] per completed op]}      (`spec` = the declarative specification of a pktout / rx op)
    out = {"k":"frame","port":n,"data":hex} | {"k":"pin","in_port":n,"reason":n,"data":hex,"total":n,"buffered":b}
        | {"k":"error","type":n,"code":n} | {"k":"port_status","port":n,"config":n,"state":n}
  The run stops at the first op that raises (the Python state after an exception is not modelled). -/

def actOfJ (j : J) : Except String Action := do
  let a ← j.string "a"
  if a = "output" then pure (.output (← j.nat "port") (← j.nat "max_len"))
  else if a = "set_vlan_vid" then pure (.setVlanVid (← j.nat "v"))
  else if a = "set_vlan_pcp" then pure (.setVlanPcp (← j.nat "v"))
  else if a = "strip_vlan" then pure .stripVlan
  else if a = "set_dl_src" then pure (.setDlSrc (← j.bytes "v"))
  else if a = "set_dl_dst" then pure (.setDlDst (← j.bytes "v"))
  else if a = "set_nw_src" then pure (.setNwSrc (← j.nat "v"))
  else if a = "set_nw_dst" then pure (.setNwDst (← j.nat "v"))
  else if a = "set_nw_tos" then pure (.setNwTos (← j.nat "v"))
  else if a = "set_tp_src" then pure (.setTpSrc (← j.nat "v"))
  else if a = "set_tp_dst" then pure (.setTpDst (← j.nat "v"))
  else if a = "enqueue" then pure (.enqueue (← j.nat "port") (← j.nat "queue"))
  else if a = "vendor" then pure (.vendor (← j.nat "v"))
  else throw s!"unknown action {a}"

def hasUnmodelled : Pkt → Option String
  | .unmodelled c _ => some c
  | .eth _ n | .vlan _ n | .arp _ n | .ipv4 _ n | .udp _ n | .tcp _ n | .icmp _ n | .echo _ n | .unreach _ n
  | .timeEx _ n => hasUnmodelled n
  | _ => none

/-- `ethernet(raw)`: only frames whose Ethernet header parses and whose chain stays inside the modelled classes -/
def frameOf (raw : Bytes) : Except String Frame :=
  match parseTop .eth raw with
  | .eth h n =>
    match hasUnmodelled n with
    | some c => throw s!"unmodelled:{c}"
    | none => pure ⟨h, n⟩
  | _ => throw "unmodelled:runt"

def opOfJ (j : J) : Except String Op := do
  let k ← j.string "op"
  if k = "portmod" then pure (.portMod (← j.nat "port") (← j.bytes "hw") (← j.nat "config") (← j.nat "mask"))
  else if k = "setconfig" then pure (.setConfig (← j.nat "flags") (← j.nat "miss"))
  else if k = "flow" then
    pure (.flowAdd ⟨← j.optNat "in_port", ← (← j.array "acts").mapM actOfJ⟩)
  else if k = "pktout" then
    pure (.packetOut (← (← j.array "acts").mapM actOfJ) (← frameOf (← j.bytes "data")) (← j.nat "in_port"))
  else if k = "rx" then
    let d ← j.bytes "data"
    let nopd := match j.get? "nopd" with | some (.bool true) => true | _ => false
    if nopd then pure (.rxObj (← frameOf d) (← j.nat "port")) else
    pure (.rx (← frameOf d) (← j.nat "port") d)
  else if k = "link" then pure (.link (← j.nat "port") (← j.boolean "down"))
  else throw s!"unknown op {k}"

def outJ : Out → J
  | .frame p d => J.mk [("k", J.str "frame"), ("port", J.ofNat p), ("data", J.ofBytes d)]
  | .packetIn p r d dl b => J.mk [("k", J.str "pin"), ("in_port", J.ofNat p), ("reason", J.ofNat r),
                                  ("data", J.ofBytes (pinData d dl b)), ("total", J.ofNat d.length), ("buffered", J.bool b)]
  | .error t c => J.mk [("k", J.str "error"), ("type", J.ofNat t), ("code", J.ofNat c)]
  | .portStatus p c s => J.mk [("k", J.str "port_status"), ("port", J.ofNat p), ("config", J.ofNat c), ("state", J.ofNat s)]

def portJ (sw : Sw) (p : Port) : J :=
  let s : Stat := (sw.stats.find? fun s => s.no == p.no).getD { no := p.no }
  J.mk [("no", J.ofNat p.no), ("config", J.ofNat p.config), ("state", J.ofNat p.state), ("rx_p", J.ofNat s.rxP),
        ("rx_b", J.ofNat s.rxB), ("tx_p", J.ofNat s.txP), ("tx_b", J.ofNat s.txB)]

def specOf (sw : Sw) : Op → J
  | .packetOut acts f inPort => J.arr ((settle sw.bufFree (Spec.emitted sw acts f inPort)).2.map outJ)
  | .rx f inPort wire => J.arr ((settle sw.bufFree (Spec.rxOuts sw f inPort wire)).2.map outJ)
  | .rxObj f inPort => J.arr ((settle sw.bufFree (Spec.rxObjOuts sw f inPort)).2.map outJ)
  | _ => J.null

/-- driver-level operations: the model's, plus read-outs that do not change the state (a port-stats request for one port
or all, a features request) -/
inductive DOp where
  | model (o : Op)
  | stats (port : Option Nat)
  | features

def dopOfJ (j : J) : Except String DOp := do
  let k ← j.string "op"
  if k = "stats" then pure (.stats (← j.optNat "port"))
  else if k = "features" then pure .features
  else pure (.model (← opOfJ j))

def statJ (s : Stat) : J :=
  J.mk [("no", J.ofNat s.no), ("rx_p", J.ofNat s.rxP), ("rx_b", J.ofNat s.rxB), ("tx_p", J.ofNat s.txP), ("tx_b", J.ofNat s.txB)]

def loop (var : Variant) : Sw → List DOp → List J → List J → Sw × List J × List J × Option String
  | sw, [], outs, specs => (sw, outs.reverse, specs.reverse, none)
  | sw, .stats port :: ops, outs, specs =>
    let sel := sw.ports.filterMap fun p =>
      if port.isNone || port == some p.no then (sw.stats.find? fun s => s.no == p.no) else none
    loop var sw ops (J.arr [J.mk [("k", J.str "stats"), ("ports", J.arr (sel.map statJ))]] :: outs) (J.null :: specs)
  | sw, .features :: ops, outs, specs =>
    let ps := sw.ports.map fun p => J.mk [("no", J.ofNat p.no), ("config", J.ofNat p.config), ("state", J.ofNat p.state)]
    loop var sw ops (J.arr [J.mk [("k", J.str "features"), ("ports", J.arr ps)]] :: outs) (J.null :: specs)
  | sw, .model op :: ops, outs, specs =>
    match step var sw op with
    | .ok (sw', o) => loop var sw' ops (J.arr (o.map outJ) :: outs) (specOf sw op :: specs)
    | .error e => (sw, outs.reverse, specs.reverse, some e.toString)

def handle (j : J) : Except String J := do
  let vj ← j.get "var"
  let var : Variant := { d7 := ← vj.boolean "d7", d8 := ← vj.boolean "d8", c121 := ← vj.boolean "c121",
                          c122 := match vj.get? "c122" with | some (.bool b) => b | _ => false,
                          c126 := match vj.get? "c126" with | some (.bool b) => b | _ => false,
                          c134 := match vj.get? "c134" with | some (.bool b) => b | _ => false }
  let ports ← (← j.array "ports").mapM fun p => do
    pure ({ no := ← p.nat "no", hw := ← p.bytes "hw", config := ← p.nat "config", state := ← p.nat "state" } : Port)
  let ops ← (← j.array "ops").mapM dopOfJ
  let bufs := (← j.optNat "bufs").getD 4096
  let miss := (← j.optNat "miss").getD 128
  let (sw, outs, specs, exc) := loop var { ports := ports, stats := ports.map fun p => { no := p.no }, bufFree := bufs, missLen := miss } ops [] []
  pure (J.mk [("outs", J.arr outs), ("exc", match exc with | some e => J.str e | none => J.null),
              ("ports", J.arr (sw.ports.map (portJ sw))), ("spec", J.arr specs)])

def main : IO Unit := serve handle
