import PoxModel.Base.Proto
import PoxModel.Model.Revent
open Pox Pox.Proto Pox.Revent

/-! Driver for C05.  Request:
  {"declared":[et..], "acceptAll":bool, "fuel":n, "ops":[action..],
   "scripts":[[hid, [{"acts":[[action, guarded]..], "ret":ret}, ..]], ..]}
  action: {"op":"add","et","hid","prio","once","weak":null|o} | {"op":"bind","ets","base","prio","weak"}
        | {"op":"rmh","hid","et":null|t} | {"op":"rme","eid","et"} | {"op":"rmp","et","eid","et2"}
        | {"op":"clear"} | {"op":"drop","o"} | {"op":"count"} | {"op":"raise","et","form":"inst"|"cls","noerr"}
  ret: {"k":"none"|"false"|"true"|"tup0"|"other"} | {"k":"tup1","h"} | {"k":"tup2","h","r"} | {"k":"exc","e":"revent"|"key"|"other"}
The k-th invocation (k = 0,1,..) of handler `hid` runs the k-th script of its list; beyond the list (or with no list)
the handler does nothing and returns None.
Answer: {"finished", "log":[call/ret/res events], "frames":[[fid, et, [eid..]]..], "final":[[et, [[prio,hid,once,eid,weak]..]]..], "count"} -/

def optNatOf (j : J) (k : String) : Except String (Option Nat) := j.optNat k

def parseExc (s : String) : Except String Exc :=
  if s = "revent" then .ok .revent else if s = "key" then .ok .key else if s = "other" then .ok .other
  else .error s!"bad exception kind {s}"

def parseRet (j : J) : Except String Ret := do
  let k ← j.string "k"
  if k = "none" then pure .none
  else if k = "false" then pure .fals
  else if k = "true" then pure .tru
  else if k = "tup0" then pure .tup0
  else if k = "other" then pure .other
  else if k = "tup1" then pure (.tup1 (← j.boolean "h"))
  else if k = "tup2" then pure (.tup2 (← j.boolean "h") (← j.boolean "r"))
  else if k = "exc" then pure (.exc (← parseExc (← j.string "e")))
  else .error s!"bad ret kind {k}"

def parseAction (j : J) : Except String Action := do
  let op ← j.string "op"
  if op = "add" then
    pure (.add (← j.nat "et") (← j.nat "hid") (← j.int "prio") (← j.boolean "once") (← optNatOf j "weak"))
  else if op = "bind" then
    pure (.bind (← j.nats "ets") (← j.nat "base") (← j.int "prio") (← optNatOf j "weak"))
  else if op = "rmh" then pure (.rmHandler (← j.nat "hid") (← optNatOf j "et"))
  else if op = "rme" then pure (.rmEid (← j.nat "eid") (← optNatOf j "et"))
  else if op = "rmp" then pure (.rmPair (← j.nat "et") (← j.nat "eid") (← optNatOf j "et2"))
  else if op = "clear" then pure .clear
  else if op = "drop" then pure (.dropOwner (← j.nat "o"))
  else if op = "count" then pure .count
  else if op = "raise" then
    let f ← j.string "form"
    let form ← if f = "inst" then pure Form.inst else if f = "cls" then pure Form.cls else .error s!"bad form {f}"
    pure (.raise (← j.nat "et") form (← j.boolean "noerr"))
  else .error s!"bad op {op}"

def parseScript (j : J) : Except String Script := do
  let acts ← (← j.array "acts").mapM fun a => do
    match a with
    | .arr [x, .bool g] => pure ((← parseAction x), g)
    | _ => .error "act = [action, guarded]"
  pure { acts, ret := (← parseRet (← j.get "ret")) }

def parseScripts (j : J) : Except String (List (Nat × List Script)) := do
  (← j.asArr).mapM fun p => do
    match p with
    | .arr [h, l] => pure ((← h.asNat), (← (← l.asArr).mapM parseScript))
    | _ => .error "scripts entry = [hid, [script..]]"

def nCalls (hid : Nat) : List Ev → Nat
  | [] => 0
  | .call _ e :: l => (if e.hid = hid then 1 else 0) + nCalls hid l
  | _ :: l => nCalls hid l

def mkBeh (tbl : List (Nat × List Script)) : Beh := fun hid log =>
  match tbl.find? (·.1 = hid) with
  | none => ⟨[], .none⟩
  | some (_, l) =>
    match l[nCalls hid log]? with
    | some s => s
    | none => ⟨[], .none⟩

def excName : Exc → String
  | .revent => "revent" | .key => "key" | .other => "other"

def retJ : Ret → J
  | .none => .str "none" | .fals => .str "false" | .tru => .str "true" | .tup0 => .str "tup0" | .other => .str "other"
  | .tup1 h => .arr [.str "tup1", .bool h]
  | .tup2 h r => .arr [.str "tup2", .bool h, .bool r]
  | .exc k => .arr [.str "exc", .str (excName k)]

def resJ : Res → J
  | .exc k => .arr [.str "exc", .str (excName k)]
  | .ok .unit => .str "unit"
  | .ok .none => .str "none"
  | .ok (.bool b) => .bool b
  | .ok (.nat n) => .num n
  | .ok (.event h) => .arr [.str "event", .bool h]
  | .ok (.pair et eid) => .arr [.str "pair", .num et, .num eid]
  | .ok (.pairs l) => .arr [.str "pairs", .arr (l.map fun p => .arr [.num p.1, .num p.2])]

def evJ : Ev → Option J
  | .call f e => some (.arr [.str "call", .num f, .num e.eid, .num e.hid])
  | .ret f e r => some (.arr [.str "ret", .num f, .num e.eid, .num e.hid, retJ r])
  | .res r => some (.arr [.str "res", resJ r])
  | _ => none

def frameJ : Ev → Option J
  | .begin f et snap => some (.arr [.num f, .num et, .arr (snap.map fun e => .num e.eid)])
  | _ => none

def entryJ (e : Entry) : J :=
  .arr [.num e.prio, .num e.hid, .bool e.once, .num e.eid, J.ofOptNat e.weak]

def handle (j : J) : Except String J := do
  let declared ← j.nats "declared"
  let acceptAll ← j.boolean "acceptAll"
  let fuel ← j.nat "fuel"
  let ops ← (← j.array "ops").mapM parseAction
  let tbl ← parseScripts (← j.get "scripts")
  let m := run (mkBeh tbl) fuel (M.init (Src.init declared acceptAll) ops)
  pure (J.mk [("finished", .bool m.finished),
              ("log", .arr (m.log.filterMap evJ)),
              ("frames", .arr (m.log.filterMap frameJ)),
              ("final", .arr (m.src.keys.map fun (k : Nat) => .arr [.num k, .arr ((m.src.subscribers k).map entryJ)])),
              ("count", .num m.src.count)])

def main : IO Unit := serve handle
