import PoxModel.Base.Proto
import PoxModel.Model.Revent
open Pox Pox.Proto Pox.Revent

/-! Driver for C05.  Request:
  {"variant":{"d24":bool,"d60":bool,"oncePre":bool,"junk":bool}, "sources":[{"declared":[et..], "acceptAll":bool, "lazy":bool}, ..], "fuel":n, "ops":[action..],
   "scripts":[[hid, [{"halt":null|bool, "acts":[[action, guarded]..], "ret":ret}, ..]], ..]}
  action: every action carries "s" = index of the source it is performed on, and
          {"op":"add","et","hid","prio","once","weak":null|o} | {"op":"bind","meths":[[prefix,et]..],"pfx","base","prio","weak"} | {"op":"rmm","pairs":[[et,eid]..]}
        | {"op":"rmh","hid","et":null|t} | {"op":"rme","eid","et"} | {"op":"rmp","et","eid","et2"}
        | {"op":"clear"} | {"op":"drop","o"} | {"op":"count"} | {"op":"raise","et","form":"inst"|"cls"|"junkc"|"junko"|"fwd"|"again" (+"f"),"noerr"}
  ret: {"k":"none"|"false"|"true"|"tup0"|"other"} | {"k":"tup1","h"} | {"k":"tup2","h","r"} | {"k":"exc","e":"revent"|"key"|"attr"|"unbound"|"other"|"base"}
The k-th invocation (k = 0,1,..) of handler `hid` runs the k-th script of its list; beyond the list (or with no list)
the handler does nothing and returns None.
Answer: {"finished", "log":[call/ret/res events], "frames":[[fid, src, et, [eid..]]..],
         "final":[ per source [[et, [[prio,hid,once,eid,weak]..]]..] ], "count":[per source], "inited":[per source]} -/

def optNatOf (j : J) (k : String) : Except String (Option Nat) := j.optNat k

def parseExc (s : String) : Except String Exc :=
  if s = "revent" then .ok .revent else if s = "key" then .ok .key else if s = "attr" then .ok .attr
  else if s = "unbound" then .ok .unbound else if s = "base" then .ok .base
  else if s = "other" then .ok .other
  else .error s!"bad exception kind {s}"

def parseRet (j : J) : Except String Ret := do
  let k ← j.string "k"
  if k = "none" then pure .none
  else if k = "false" then pure .fals
  else if k = "true" then pure .tru
  else if k = "tup0" then pure .tup0
  else if k = "other" then pure .other
  else if k = "tup1" then pure (.tup1 (← j.boolean "h"))
  else if k = "tup2" then pure (.tup2 (← j.boolean "h") (← j.boolean "r"))
  else if k = "exc" then pure (.exc (← parseExc (← j.string "e")))
  else .error s!"bad ret kind {k}"

def parseAction (j : J) : Except String Action := do
  let op ← j.string "op"
  if op = "add" then
    pure (.add (← j.nat "et") (← j.nat "hid") (← j.int "prio") (← j.boolean "once") (← optNatOf j "weak"))
  else if op = "bind" then
    let ms ← (← j.array "meths").mapM fun m => do
      match m with
      | .arr [a, b] => pure ((← a.asNat), (← b.asNat))
      | _ => .error "meths entry = [prefix, et]"
    pure (.bind ms (← j.nat "pfx") (← j.nat "base") (← j.int "prio") (← optNatOf j "weak"))
  else if op = "rmm" then
    let ps ← (← j.array "pairs").mapM fun m => do
      match m with
      | .arr [a, b] => pure ((← a.asNat), (← b.asNat))
      | _ => .error "pairs entry = [et, eid]"
    pure (.rmMany ps)
  else if op = "rmh" then pure (.rmHandler (← j.nat "hid") (← optNatOf j "et"))
  else if op = "rme" then pure (.rmEid (← j.nat "eid") (← optNatOf j "et"))
  else if op = "rmp" then pure (.rmPair (← j.nat "et") (← j.nat "eid") (← optNatOf j "et2"))
  else if op = "clear" then pure .clear
  else if op = "drop" then pure (.dropOwner (← j.nat "o"))
  else if op = "count" then pure .count
  else if op = "raise" then
    let f ← j.string "form"
    let form ← if f = "inst" then pure Form.inst else if f = "cls" then pure Form.cls
               else if f = "junkc" then pure (Form.junk true) else if f = "junko" then pure (Form.junk false)
               else if f = "again" then pure (Form.again (← j.nat "f")) else if f = "fwd" then pure Form.fwd else .error s!"bad form {f}"
    pure (.raise (← j.nat "et") form (← j.boolean "noerr"))
  else .error s!"bad op {op}"

def parseSAct (n : Nat) (j : J) : Except String SAct := do
  let i ← j.nat "s"
  if i < n then pure ⟨i, (← parseAction j)⟩ else .error s!"source index {i} out of range"

def optBoolOf (j : J) (k : String) : Except String (Option Bool) :=
  match j.get? k with
  | none => .error s!"missing key {k}"
  | some .null => .ok none
  | some v => do pure (some (← v.asBool))

def parseScript (n : Nat) (j : J) : Except String Script := do
  let acts ← (← j.array "acts").mapM fun a => do
    match a with
    | .arr [x, .bool g] => pure ((← parseSAct n x), g)
    | _ => .error "act = [action, guarded]"
  pure { halt := (← optBoolOf j "halt"), acts, ret := (← parseRet (← j.get "ret")) }

def parseScripts (n : Nat) (j : J) : Except String (List (Nat × List Script)) := do
  (← j.asArr).mapM fun p => do
    match p with
    | .arr [h, l] => pure ((← h.asNat), (← (← l.asArr).mapM (parseScript n)))
    | _ => .error "scripts entry = [hid, [script..]]"

def nCalls (hid : Nat) : List Ev → Nat
  | [] => 0
  | .call _ _ e live :: l => (if e.hid = hid && live then 1 else 0) + nCalls hid l
  | _ :: l => nCalls hid l

def mkBeh (tbl : List (Nat × List Script)) : Beh := fun hid log =>
  match tbl.find? (·.1 = hid) with
  | none => ⟨none, [], .none⟩
  | some (_, l) =>
    match l[nCalls hid log]? with
    | some s => s
    | none => ⟨none, [], .none⟩

def excName : Exc → String
  | .revent => "revent" | .key => "key" | .attr => "attr" | .unbound => "unbound" | .other => "other" | .base => "base"

def retJ : Ret → J
  | .none => .str "none" | .fals => .str "false" | .tru => .str "true" | .tup0 => .str "tup0" | .other => .str "other"
  | .tup1 h => .arr [.str "tup1", .bool h]
  | .tup2 h r => .arr [.str "tup2", .bool h, .bool r]
  | .exc k => .arr [.str "exc", .str (excName k)]

def resJ : Res → J
  | .exc k => .arr [.str "exc", .str (excName k)]
  | .ok .unit => .str "unit"
  | .ok .none => .str "none"
  | .ok (.bool b) => .bool b
  | .ok (.nat n) => .num n
  | .ok (.event h) => .arr [.str "event", .bool h]
  | .ok (.pair et eid) => .arr [.str "pair", .num et, .num eid]
  | .ok (.pairs l) => .arr [.str "pairs", .arr (l.map fun p => .arr [.num p.1, .num p.2])]

/-- the observable part of the log: a `call` of a dead proxy (and the `ret` that goes with it) never reaches Python code -/
def renderLog : List Ev → Option Nat → List J
  | [], _ => []
  | .call f i e live :: l, sk =>
    if live then .arr [.str "call", .num f, .num i, .num e.eid, .num e.hid] :: renderLog l sk else renderLog l (some f)
  | .ret f e r h :: l, sk =>
    if sk = some f then renderLog l none
    else .arr [.str "ret", .num f, .num e.eid, .num e.hid, retJ r, .bool h] :: renderLog l sk
  | .res r :: l, sk => .arr [.str "res", resJ r] :: renderLog l sk
  | _ :: l, sk => renderLog l sk

def frameJ : Ev → Option J
  | .begin f i et snap => some (.arr [.num f, .num i, .num et, .arr (snap.map fun e => .num e.eid)])
  | _ => none

def entryJ (e : Entry) : J :=
  .arr [.num e.prio, .num e.hid, .bool e.once, .num e.eid, J.ofOptNat e.weak]

def parseSource (j : J) : Except String Src := do
  pure (Src.init (← j.nats "declared") (← j.boolean "acceptAll") (← j.boolean "lazy"))

def handle (j : J) : Except String J := do
  let sources ← (← j.array "sources").mapM parseSource
  let n := sources.length
  if n = 0 then .error "no source" else
  let fuel ← j.nat "fuel"
  let ops ← (← j.array "ops").mapM (parseSAct n)
  let tbl ← parseScripts n (← j.get "scripts")
  let srcs : Nat → Src := fun i => match sources[i]? with
    | some s => s
    | none => Src.init [] false          -- never addressed: every source index in the request is < n
  let vj ← j.get "variant"
  let v : Variant := ⟨(← vj.boolean "d24"), (← vj.boolean "d60"), (← vj.boolean "oncePre"), (← vj.boolean "junk")⟩
  let m := drive (mkBeh tbl) fuel (M.init v srcs ops)
  let idx := List.range n
  pure (J.mk [("finished", .bool m.finished),
              ("log", .arr (renderLog m.log none)),
              ("frames", .arr (m.log.filterMap frameJ)),
              ("final", .arr (idx.map fun i =>
                  .arr ((m.srcs i).keys.map fun (k : Nat) => .arr [.num k, .arr (((m.srcs i).subscribers k).map entryJ)]))),
              ("count", .arr (idx.map fun i => .num (m.srcs i).count)),
              ("inited", .arr (idx.map fun i => .bool (m.srcs i).inited))])

def main : IO Unit := serve handle
