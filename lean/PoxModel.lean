import PoxModel.Properties.C02
import PoxModel.Properties.C18
