import PoxModel.Properties.C02
import PoxModel.Properties.C03
import PoxModel.Properties.C08
import PoxModel.Properties.C14
import PoxModel.Properties.C16
import PoxModel.Properties.C18
import PoxModel.Properties.C20
