import PoxModel.Properties.C02
